// Driver for the wire part of C14: a binary timestamp must survive the MessagePack timestamp extension unchanged.
// Every CBinTimestamp is written by the string writer and by the stream writer, decoded by an independent decoder of the
// three timestamp formats of the MessagePack specification (in this file), and read back by the string and the stream reader.
#include "vh_common.h"
#include "bitserializer/convert.h"
#include "bitserializer/serialization_detail/bin_timestamp.h"
#include "msgpack/msgpack_writers.h"
#include "msgpack/msgpack_readers.h"
#include <chrono>
#include <sstream>

using namespace BitSerializer;
using BitSerializer::Detail::CBinTimestamp;
using namespace BitSerializer::MsgPack::Detail;

struct Fails {
	unsigned long long n = 0;
	std::string js = "[";
	void add(const std::string& key, const std::string& what) {
		if (n++ < 8) { if (js.size() > 1) js += ","; js += vh::JObj().str("key", key).str("what", what).done(); }
	}
	std::string done() const { return js + "]"; }
};

static uint64_t be(const std::string& s, size_t pos, size_t n) {
	uint64_t v = 0;
	for (size_t i = 0; i < n; ++i) v = (v << 8) | static_cast<unsigned char>(s[pos + i]);
	return v;
}

// Independent decoder (MessagePack specification, "Timestamp extension type", timestamp 96 see below); returns the name of the format or "".
static const char* specDecode(const std::string& b, int64_t& sec, int64_t& ns) {
	if (b.size() == 6 && (unsigned char)b[0] == 0xD6 && (unsigned char)b[1] == 0xFF) { sec = int64_t(be(b, 2, 4)); ns = 0; return "ts32"; }
	if (b.size() == 10 && (unsigned char)b[0] == 0xD7 && (unsigned char)b[1] == 0xFF) {
		uint64_t d = be(b, 2, 8); ns = int64_t(d >> 34); sec = int64_t(d & 0x3FFFFFFFFull); return "ts64";
	}
	if (b.size() == 15 && (unsigned char)b[0] == 0xC7 && (unsigned char)b[1] == 12 && (unsigned char)b[2] == 0xFF) {
		// The library stores seconds(64) before nanoseconds(32), the specification the other way round: that is a conformance matter decided
		// by C06 / C07 (recorded there as a known finding); C14 asks whether the value survives, so the layout of the library is decoded here.
		sec = int64_t(be(b, 3, 8)); ns = int64_t(be(b, 11, 4)); return "ts96";
	}
	return "";
}

static std::string hex(const std::string& s) {
	static const char* d = "0123456789abcdef"; std::string o;
	for (unsigned char c : s) { o.push_back(d[c >> 4]); o.push_back(d[c & 15]); }
	return o;
}

static int64_t pickSeconds(vh::Rng& rng) {
	switch (rng.below(8)) {
	case 0: { // around a power of two (both signs)
		int k = int(rng.below(63)); int64_t p = int64_t(1) << k; int64_t d = rng.range(-3, 3);
		int64_t v = p + d; return rng.chance(1, 3) ? -v : v; }
	case 1: return rng.range(-5, 5);
	case 2: return int64_t(rng.next() >> rng.below(64));                 // non-negative, any width
	case 3: return -int64_t(rng.next() >> (1 + rng.below(63)));
	case 4: return INT64_MAX - int64_t(rng.below(4));
	case 5: return INT64_MIN + int64_t(rng.below(4));
	case 6: return rng.range(0x3FFFFFFF0ll, 0x80000000Fll);                // the 34 / 35 bit edge region
	default: return rng.range(0, 0xFFFFFFFFll + 16);                      // the 32 bit edge region
	}
}
static int32_t pickNanos(vh::Rng& rng) {
	switch (rng.below(6)) {
	case 0: return 0;
	case 1: return int32_t(rng.below(4));
	case 2: return 999999999 - int32_t(rng.below(4));
	case 3: return int32_t(1u << rng.below(30)) % 1000000000;
	case 4: return int32_t(rng.below(1000)) * 1000000;
	default: return int32_t(rng.below(1000000000));
	}
}

static void oneTs(const CBinTimestamp& ts, Fails& f, unsigned long long& calls, std::map<std::string, unsigned long long>& formats) {
	SerializationOptions opt;
	const std::string what0 = "timestamp " + ts.ToString();
	std::string mem;
	{ CMsgPackStringWriter w(mem); w.WriteValue(ts); ++calls; }
	std::ostringstream os;
	{ CMsgPackStreamWriter w(os); w.WriteValue(ts); ++calls; }
	const std::string str = os.str();
	if (mem != str) f.add("wire/memory-vs-stream-bytes", what0 + ": string writer " + hex(mem) + ", stream writer " + hex(str));
	for (int k = 0; k < 2; ++k) {
		const std::string& b = k ? str : mem; const char* wn = k ? "stream-writer" : "string-writer";
		int64_t sec = 0, ns = 0; const char* fmt = specDecode(b, sec, ns);
		if (!*fmt) { f.add(std::string("wire/not-a-timestamp/") + wn, what0 + " written as " + hex(b)); continue; }
		++formats[fmt];
		if (sec != ts.Seconds || ns != ts.Nanoseconds)
			f.add(std::string("wire/spec-decoder-differs/") + wn + "/" + fmt, what0 + " written as " + hex(b) + " which denotes " + std::to_string(sec) + " " + std::to_string(ns));
		try {
			CBinTimestamp back(-77, 77); CMsgPackStringReader r(b, opt); ++calls;
			if (!r.ReadValue(back)) f.add(std::string("wire/string-reader-refused/") + wn, what0 + " bytes " + hex(b));
			else if (!(back == ts)) f.add(std::string("wire/string-reader-differs/") + wn + "/" + fmt, what0 + " bytes " + hex(b) + " read as " + back.ToString());
		} catch (const std::exception& ex) { f.add(std::string("wire/string-reader-threw/") + wn, what0 + ": " + vh::demangle(typeid(ex).name())); }
		try {
			std::istringstream is(b); CBinTimestamp back(-77, 77); CMsgPackStreamReader r(is, opt); ++calls;
			if (!r.ReadValue(back)) f.add(std::string("wire/stream-reader-refused/") + wn, what0 + " bytes " + hex(b));
			else if (!(back == ts)) f.add(std::string("wire/stream-reader-differs/") + wn + "/" + fmt, what0 + " bytes " + hex(b) + " read as " + back.ToString());
		} catch (const std::exception& ex) { f.add(std::string("wire/stream-reader-threw/") + wn, what0 + ": " + vh::demangle(typeid(ex).name())); }
	}
}

template <class TP> static void oneTp(int64_t count, const char* tn, Fails& f, unsigned long long& calls) {
	// time point -> binary timestamp -> wire (string writer) -> binary timestamp -> time point
	TP tp{ typename TP::duration(count) };
	try {
		CBinTimestamp ts; BitSerializer::Detail::To(tp, ts);
		std::string mem; { CMsgPackStringWriter w(mem); w.WriteValue(ts); }
		SerializationOptions opt; CBinTimestamp back; CMsgPackStringReader r(mem, opt); ++calls;
		TP tp2{};
		if (!r.ReadValue(back)) { f.add(std::string("wire-tp/refused/") + tn, "count " + std::to_string(count)); return; }
		BitSerializer::Detail::To(back, tp2);
		if (tp2 != tp) f.add(std::string("wire-tp/differs/") + tn, "count " + std::to_string(count) + " came back as " + std::to_string(tp2.time_since_epoch().count()) + " through " + hex(mem));
	} catch (const std::out_of_range&) {
	} catch (const std::exception& ex) { f.add(std::string("wire-tp/threw/") + tn, "count " + std::to_string(count) + ": " + vh::demangle(typeid(ex).name())); }
}

static std::string opC14Wire(const vh::Case& c) {
	vh::Rng rng(c.getu("seed", 1));
	unsigned long long n = c.getu("n", 1000), calls = 0, values = 0; Fails f;
	std::map<std::string, unsigned long long> formats;
	// directed: every edge of the three formats, with zero and non-zero nanoseconds
	const int64_t edges[] = { 0, 1, -1, 0x7FFFFFFFll, 0x80000000ll, 0xFFFFFFFFll, 0x100000000ll, 0x1FFFFFFFFll, 0x200000000ll, 0x3FFFFFFFFll, 0x400000000ll,
		0x400000001ll, 0x7FFFFFFFFll, 0x800000000ll, 0xFFFFFFFFFll, -0x80000000ll, -0x100000000ll, -0x400000000ll, INT64_MAX, INT64_MIN };
	const int32_t nanos[] = { 0, 1, 2, 3, 500000000, 999999998, 999999999 };
	for (int64_t s : edges) for (int32_t ns : nanos) { oneTs(CBinTimestamp(s, ns), f, calls, formats); ++values; }
	for (unsigned long long i = 0; i < n; ++i) { oneTs(CBinTimestamp(pickSeconds(rng), pickNanos(rng)), f, calls, formats); ++values; }
	using namespace std::chrono;
	for (unsigned long long i = 0; i < n / 4; ++i) {
		int64_t s = pickSeconds(rng);
		oneTp<time_point<system_clock, seconds>>(s, "s", f, calls);
		if (s < INT64_MAX - 2000) oneTp<time_point<system_clock, milliseconds>>(s / 1000 * 1000 + int64_t(rng.below(1000)), "ms", f, calls);
		if (s > INT64_MIN / 1000 && s < INT64_MAX / 1000) oneTp<time_point<system_clock, milliseconds>>(s * 1000 + int64_t(rng.below(1000)), "ms", f, calls);
		oneTp<time_point<system_clock, nanoseconds>>(int64_t(rng.next()), "ns", f, calls);
		values += 4;
	}
	return vh::JObj().str("id", c.get("id")).unum("calls", calls).unum("values", values).unum("ts32", formats["ts32"]).unum("ts64", formats["ts64"]).unum("ts96", formats["ts96"])
		.unum("nfail", f.n).raw("fails", f.done()).done();
}

int main() {
	std::string line;
	while (std::getline(std::cin, line)) {
		if (line.empty()) continue;
		auto c = vh::Case::parse(line);
		std::string op = c.get("op"), out;
		try {
			if (op == "c14wire") out = opC14Wire(c);
			else out = vh::JObj().str("id", c.get("id")).str("error", "unknown op").done();
		} catch (const std::exception& ex) {
			out = vh::JObj().str("id", c.get("id")).str("error", std::string("driver exception: ") + ex.what()).done();
		}
		std::cout << out << "\n" << std::flush;
	}
	return 0;
}
