#include "doc_ops.h"
#include "bitserializer/pugixml_archive.h"
using TA = BitSerializer::Xml::PugiXml::XmlArchive;
namespace doc {
void register_xml_c(Registry& r) {
#define X(N, ...) reg<TA, __VA_ARGS__>(r, "xml", #N);
	DOC_OBJECTS_A(X)
#undef X
}
}
