// Common harness utilities for the BitSerializer runtime-monitoring drivers.
// Nothing in this header uses BitSerializer.
#pragma once
#include <algorithm>
#include <atomic>
#include <cerrno>
#include <climits>
#include <cmath>
#include <csignal>
#include <cstdint>
#include <cstdio>
#include <cstdlib>
#include <cstring>
#include <exception>
#include <functional>
#include <iostream>
#include <istream>
#include <map>
#include <new>
#include <ostream>
#include <sstream>
#include <streambuf>
#include <string>
#include <string_view>
#include <typeinfo>
#include <vector>
#include <cxxabi.h>
#include <fcntl.h>
#include <poll.h>
#include <sys/mman.h>
#include <sys/resource.h>
#include <sys/time.h>
#include <sys/wait.h>
#include <unistd.h>

namespace vh {

// ---------------------------------------------------------------- PRNG (splitmix64)
struct Rng {
	uint64_t s;
	explicit Rng(uint64_t seed = 1) : s(seed) {}
	uint64_t next() {
		uint64_t z = (s += 0x9E3779B97F4A7C15ull);
		z = (z ^ (z >> 30)) * 0xBF58476D1CE4E5B9ull;
		z = (z ^ (z >> 27)) * 0x94D049BB133111EBull;
		return z ^ (z >> 31);
	}
	uint64_t below(uint64_t n) { return n ? next() % n : 0; }
	int64_t range(int64_t lo, int64_t hi) { return lo + static_cast<int64_t>(below(static_cast<uint64_t>(hi - lo) + 1)); }
	bool chance(unsigned num, unsigned den) { return below(den) < num; }
	template <class T> const T& pick(const std::vector<T>& v) { return v[below(v.size())]; }
	Rng fork(uint64_t salt) { Rng r(s ^ (salt * 0xD6E8FEB86659FD93ull)); r.next(); return r; }
};

// ---------------------------------------------------------------- hex
inline std::string hex(std::string_view in) {
	static const char* d = "0123456789abcdef";
	std::string out;
	out.reserve(in.size() * 2);
	for (unsigned char c : in) { out.push_back(d[c >> 4]); out.push_back(d[c & 15]); }
	return out;
}
inline int hexval(char c) {
	if (c >= '0' && c <= '9') return c - '0';
	if (c >= 'a' && c <= 'f') return c - 'a' + 10;
	if (c >= 'A' && c <= 'F') return c - 'A' + 10;
	return -1;
}
inline std::string unhex(std::string_view in) {
	std::string out;
	out.reserve(in.size() / 2);
	for (size_t i = 0; i + 1 < in.size(); i += 2) out.push_back(static_cast<char>(hexval(in[i]) * 16 + hexval(in[i + 1])));
	return out;
}
template <class Ch> std::string hex_units(std::basic_string_view<Ch> s) {
	// code units, big-endian hex, fixed width per unit
	static const char* d = "0123456789abcdef";
	std::string out;
	for (auto c : s) {
		auto u = static_cast<std::make_unsigned_t<Ch>>(c);
		for (int sh = static_cast<int>(sizeof(Ch)) * 8 - 4; sh >= 0; sh -= 4) out.push_back(d[(static_cast<uint64_t>(u) >> sh) & 15]);
	}
	return out;
}

// ---------------------------------------------------------------- JSON text helpers (ASCII-only output)
inline std::string jstr(std::string_view s) {
	std::string o = "\"";
	char buf[8];
	for (unsigned char c : s) {
		if (c == '"' || c == '\\') { o.push_back('\\'); o.push_back(static_cast<char>(c)); }
		else if (c < 0x20 || c >= 0x7f) { snprintf(buf, sizeof buf, "\\u%04x", c); o += buf; }
		else o.push_back(static_cast<char>(c));
	}
	o.push_back('"');
	return o;
}

struct JObj {
	std::string s = "{";
	bool first = true;
	JObj& raw(const char* k, const std::string& v) { if (!first) s += ","; first = false; s += jstr(k); s += ":"; s += v; return *this; }
	JObj& str(const char* k, std::string_view v) { return raw(k, jstr(v)); }
	JObj& num(const char* k, long long v) { return raw(k, std::to_string(v)); }
	JObj& unum(const char* k, unsigned long long v) { return raw(k, std::to_string(v)); }
	JObj& boolean(const char* k, bool v) { return raw(k, v ? "true" : "false"); }
	std::string done() const { return s + "}"; }
};

// ---------------------------------------------------------------- case lines:  key=value key=value ...
struct Case {
	std::map<std::string, std::string> kv;
	static Case parse(const std::string& line) {
		Case c;
		std::istringstream is(line);
		std::string tok;
		while (is >> tok) {
			auto p = tok.find('=');
			if (p == std::string::npos) c.kv[tok] = "1"; else c.kv[tok.substr(0, p)] = tok.substr(p + 1);
		}
		return c;
	}
	bool has(const char* k) const { return kv.count(k) != 0; }
	std::string get(const char* k, const std::string& def = "") const { auto it = kv.find(k); return it == kv.end() ? def : it->second; }
	long long geti(const char* k, long long def = 0) const { auto it = kv.find(k); return it == kv.end() ? def : strtoll(it->second.c_str(), nullptr, 0); }
	unsigned long long getu(const char* k, unsigned long long def = 0) const { auto it = kv.find(k); return it == kv.end() ? def : strtoull(it->second.c_str(), nullptr, 0); }
	std::string bytes(const char* k) const { return unhex(get(k)); }
};

inline std::string demangle(const char* n) {
	int st = 0;
	char* d = abi::__cxa_demangle(n, nullptr, nullptr, &st);
	std::string r = (st == 0 && d) ? d : n;
	free(d);
	return r;
}

// ---------------------------------------------------------------- allocation meter / failpoint
// Defined once per driver with VH_DEFINE_ALLOC_METER (replaces global operator new/delete).
struct AllocMeter {
	static std::atomic<long long> live, peak, count, largest;
	static std::atomic<long long> fail_at;     // fail the N-th allocation from now (1-based); 0 = never
	static std::atomic<long long> hard_limit;  // single request above this -> bad_alloc (recorded in `largest`)
	static std::atomic<bool> enabled;
	static void reset() { live = 0; peak = 0; count = 0; largest = 0; fail_at = 0; }
};

#define VH_DEFINE_ALLOC_METER                                                                                     \
	std::atomic<long long> vh::AllocMeter::live{0}, vh::AllocMeter::peak{0}, vh::AllocMeter::count{0},           \
		vh::AllocMeter::largest{0}, vh::AllocMeter::fail_at{0}, vh::AllocMeter::hard_limit{1ll << 31};            \
	std::atomic<bool> vh::AllocMeter::enabled{false};                                                             \
	static void* vh_alloc(size_t n) {                                                                             \
		using M = vh::AllocMeter;                                                                                 \
		if (M::enabled.load(std::memory_order_relaxed)) {                                                         \
			long long c = ++M::count;                                                                             \
			long long prev = M::largest.load();                                                                   \
			while (static_cast<long long>(n) > prev && !M::largest.compare_exchange_weak(prev, static_cast<long long>(n))) {} \
			long long fa = M::fail_at.load();                                                                     \
			if (fa != 0 && c == fa) throw std::bad_alloc();                                                       \
			if (static_cast<long long>(n) > M::hard_limit.load()) throw std::bad_alloc();                         \
		}                                                                                                         \
		size_t* p = static_cast<size_t*>(malloc(n + 16));                                                         \
		if (!p) throw std::bad_alloc();                                                                           \
		p[0] = n;                                                                                                 \
		p[1] = 0x5AFEC0DEull;                                                                                     \
		long long l = (vh::AllocMeter::live += static_cast<long long>(n));                                        \
		long long pk = vh::AllocMeter::peak.load();                                                               \
		while (l > pk && !vh::AllocMeter::peak.compare_exchange_weak(pk, l)) {}                                   \
		return p + 2;                                                                                             \
	}                                                                                                             \
	static void vh_free(void* q) noexcept {                                                                       \
		if (!q) return;                                                                                           \
		size_t* p = static_cast<size_t*>(q) - 2;                                                                  \
		vh::AllocMeter::live -= static_cast<long long>(p[0]);                                                     \
		free(p);                                                                                                  \
	}                                                                                                             \
	void* operator new(size_t n) { return vh_alloc(n); }                                                          \
	void* operator new[](size_t n) { return vh_alloc(n); }                                                        \
	void* operator new(size_t n, const std::nothrow_t&) noexcept { try { return vh_alloc(n); } catch (...) { return nullptr; } } \
	void* operator new[](size_t n, const std::nothrow_t&) noexcept { try { return vh_alloc(n); } catch (...) { return nullptr; } } \
	void operator delete(void* p) noexcept { vh_free(p); }                                                        \
	void operator delete[](void* p) noexcept { vh_free(p); }                                                      \
	void operator delete(void* p, size_t) noexcept { vh_free(p); }                                                \
	void operator delete[](void* p, size_t) noexcept { vh_free(p); }

// ---------------------------------------------------------------- terminate trap
inline void install_terminate_trap() {
	std::set_terminate([] {
		const char* name = "none";
		std::string dn;
		if (auto t = abi::__cxa_current_exception_type()) { dn = demangle(t->name()); name = dn.c_str(); }
		char buf[512];
		int n = snprintf(buf, sizeof buf, "\nVH-TERMINATE %s\n", name);
		(void)!write(2, buf, static_cast<size_t>(n));
		_exit(97);
	});
}

// ---------------------------------------------------------------- fork isolation
struct Isolated {
	std::string kind;     // "ok" | "exit" | "signal" | "wallclock"
	int code = 0;         // exit code or signal number
	std::string out;      // what the child function returned (pipe)
	std::string err;      // tail of child's stderr
	long cpu_ms = 0;
	bool cpu_exhausted = false;
};

// Runs fn in a forked child. fn returns a string delivered to the parent. If `normal_exit`, the child
// leaves through exit() so that LeakSanitizer runs; otherwise _exit(0).
inline Isolated run_isolated(const std::function<std::string()>& fn, int cpu_seconds = 20, int wall_seconds = 120, bool normal_exit = false) {
	Isolated r;
	int pfd[2];
	if (pipe(pfd) != 0) { r.kind = "harness"; return r; }
	int efd = memfd_create("vh-stderr", 0);
	fflush(stdout);
	fflush(stderr);
	pid_t pid = fork();
	if (pid < 0) { r.kind = "harness"; close(pfd[0]); close(pfd[1]); if (efd >= 0) close(efd); return r; }
	if (pid == 0) {
		close(pfd[0]);
		if (efd >= 0) dup2(efd, 2);
		struct rlimit rl { static_cast<rlim_t>(cpu_seconds), static_cast<rlim_t>(cpu_seconds + 2) };
		setrlimit(RLIMIT_CPU, &rl);
		struct rlimit core { 0, 0 };
		setrlimit(RLIMIT_CORE, &core);
		install_terminate_trap();
		std::string res = fn();
		size_t off = 0;
		while (off < res.size()) {
			ssize_t w = write(pfd[1], res.data() + off, res.size() - off);
			if (w <= 0) break;
			off += static_cast<size_t>(w);
		}
		close(pfd[1]);
		if (normal_exit) exit(0);
		_exit(0);
	}
	close(pfd[1]);
	// read with wall-clock watchdog
	struct timeval t0;
	gettimeofday(&t0, nullptr);
	bool wall = false;
	char buf[65536];
	for (;;) {
		struct timeval now;
		gettimeofday(&now, nullptr);
		long elapsed = now.tv_sec - t0.tv_sec;
		if (elapsed >= wall_seconds) { wall = true; break; }
		struct pollfd p { pfd[0], POLLIN, 0 };
		int pr = poll(&p, 1, 1000);
		if (pr < 0 && errno != EINTR) break;
		if (pr > 0) {
			ssize_t n = read(pfd[0], buf, sizeof buf);
			if (n <= 0) break;
			r.out.append(buf, static_cast<size_t>(n));
		}
	}
	close(pfd[0]);
	int status = 0;
	struct rusage ru {};
	if (wall) {
		kill(pid, SIGKILL);
		wait4(pid, &status, 0, &ru);
		r.kind = "wallclock";
	} else {
		// pipe closed: child is exiting (possibly running LSan); wait for it, bounded by the wall clock
		for (;;) {
			pid_t w = wait4(pid, &status, WNOHANG, &ru);
			if (w == pid) break;
			struct timeval now;
			gettimeofday(&now, nullptr);
			if (now.tv_sec - t0.tv_sec >= wall_seconds) { kill(pid, SIGKILL); wait4(pid, &status, 0, &ru); wall = true; break; }
			usleep(2000);
		}
		if (wall) r.kind = "wallclock";
		else if (WIFEXITED(status)) { r.code = WEXITSTATUS(status); r.kind = r.code == 0 ? "ok" : "exit"; }
		else if (WIFSIGNALED(status)) { r.code = WTERMSIG(status); r.kind = "signal"; }
	}
	r.cpu_ms = ru.ru_utime.tv_sec * 1000 + ru.ru_utime.tv_usec / 1000 + ru.ru_stime.tv_sec * 1000 + ru.ru_stime.tv_usec / 1000;
	if (r.kind == "signal" && (r.code == SIGXCPU || r.code == SIGKILL) && r.cpu_ms >= (cpu_seconds - 1) * 1000L) r.cpu_exhausted = true;
	if (efd >= 0) {
		// head (the report header and the top frames) + tail of the child's stderr
		off_t sz = lseek(efd, 0, SEEK_END);
		auto grab = [&](off_t from, off_t len) { std::string e(static_cast<size_t>(len), '\0'); lseek(efd, from, SEEK_SET); ssize_t n = read(efd, e.data(), e.size()); e.resize(n > 0 ? static_cast<size_t>(n) : 0); return e; };
		if (sz <= 5000) r.err = grab(0, sz);
		else r.err = grab(0, 3500) + "\n[...]\n" + grab(sz - 1500, 1500);
		close(efd);
	}
	return r;
}

// Short classification of a dead child for violation keys.
inline std::string classify_death(const Isolated& r) {
	if (r.kind == "ok") return "ok";
	if (r.kind == "wallclock") return "wallclock";
	if (r.cpu_exhausted) return "hang";
	auto has = [&](const char* s) { return r.err.find(s) != std::string::npos; };
	if (has("VH-TERMINATE")) {
		auto p = r.err.find("VH-TERMINATE ");
		auto e = r.err.find('\n', p);
		return "terminate:" + r.err.substr(p + 13, e - p - 13);
	}
	if (has("LeakSanitizer")) return "leak";
	if (has("stack-overflow")) return "stack-overflow";
	if (has("AddressSanitizer")) {
		auto p = r.err.find("AddressSanitizer: ");
		auto e = r.err.find_first_of(" \n", p + 18);
		return "asan:" + r.err.substr(p + 18, e - p - 18);
	}
	if (has("runtime error:")) {
		auto p = r.err.find("runtime error: ");
		auto e = r.err.find('\n', p);
		std::string m = r.err.substr(p + 15, std::min<size_t>(e - p - 15, 60));
		// strip numbers to make the key stable
		std::string k;
		for (char c : m) if (!(c >= '0' && c <= '9')) k.push_back(c == ' ' ? '_' : c);
		return "ubsan:" + k;
	}
	if (has("Assertion")) return "assert";
	if (r.kind == "signal") return "signal:" + std::to_string(r.code);
	return "exit:" + std::to_string(r.code);
}

// ---------------------------------------------------------------- stream buffers
// Seekable input buffer that delivers at most `step` bytes per underflow.
class SlowBuf : public std::streambuf {
public:
	SlowBuf(std::string data, size_t step) : mData(std::move(data)), mStep(step ? step : 1) { setg(base(), base(), base()); }
protected:
	int_type underflow() override {
		if (gptr() < egptr()) return traits_type::to_int_type(*gptr());
		size_t pos = static_cast<size_t>(egptr() - base());
		if (pos >= mData.size()) return traits_type::eof();
		size_t n = std::min(mStep, mData.size() - pos);
		setg(base(), base() + pos, base() + pos + n);
		return traits_type::to_int_type(*gptr());
	}
	pos_type seekoff(off_type off, std::ios_base::seekdir dir, std::ios_base::openmode) override {
		off_type cur = gptr() - base();
		off_type np = dir == std::ios_base::beg ? off : dir == std::ios_base::cur ? cur + off : static_cast<off_type>(mData.size()) + off;
		if (np < 0 || np > static_cast<off_type>(mData.size())) return pos_type(off_type(-1));
		setg(base(), base() + np, base() + np);
		return pos_type(np);
	}
	pos_type seekpos(pos_type p, std::ios_base::openmode m) override { return seekoff(off_type(p), std::ios_base::beg, m); }
private:
	char* base() { return mData.data(); }
	std::string mData;
	size_t mStep;
};

// Forward-only input buffer (seek fails).
class NoSeekBuf : public std::streambuf {
public:
	NoSeekBuf(std::string data, size_t step) : mData(std::move(data)), mStep(step ? step : 1) { setg(mData.data(), mData.data(), mData.data()); }
protected:
	int_type underflow() override {
		if (gptr() < egptr()) return traits_type::to_int_type(*gptr());
		size_t pos = static_cast<size_t>(egptr() - mData.data());
		if (pos >= mData.size()) return traits_type::eof();
		size_t n = std::min(mStep, mData.size() - pos);
		size_t back = std::min<size_t>(pos, 16);   // small putback area like a real pipe / socket buffer, but no seeking
		setg(mData.data() + pos - back, mData.data() + pos, mData.data() + pos + n);
		return traits_type::to_int_type(*gptr());
	}
	pos_type seekoff(off_type, std::ios_base::seekdir, std::ios_base::openmode) override { return pos_type(off_type(-1)); }
	pos_type seekpos(pos_type, std::ios_base::openmode) override { return pos_type(off_type(-1)); }
private:
	std::string mData;
	size_t mStep;
};

// Input buffer that fails at byte offset `failAt`: mode 0 = EOF, 1 = throws from underflow (istream sets badbit or rethrows).
class FailInBuf : public std::streambuf {
public:
	FailInBuf(std::string data, size_t failAt, int mode) : mData(std::move(data)), mFailAt(std::min(failAt, mData.size())), mMode(mode) { setg(mData.data(), mData.data(), mData.data()); }
protected:
	int_type underflow() override {
		if (gptr() < egptr()) return traits_type::to_int_type(*gptr());
		size_t pos = static_cast<size_t>(egptr() - mData.data());
		if (pos >= mFailAt) {
			if (mMode == 1) throw std::ios_base::failure("injected input failure");
			return traits_type::eof();
		}
		size_t n = std::min<size_t>(mFailAt - pos, 64);
		setg(mData.data(), mData.data() + pos, mData.data() + pos + n);
		return traits_type::to_int_type(*gptr());
	}
	pos_type seekoff(off_type off, std::ios_base::seekdir dir, std::ios_base::openmode) override {
		off_type cur = gptr() - mData.data();
		off_type np = dir == std::ios_base::beg ? off : dir == std::ios_base::cur ? cur + off : static_cast<off_type>(mFailAt) + off;
		if (np < 0 || np > static_cast<off_type>(mFailAt)) return pos_type(off_type(-1));
		setg(mData.data(), mData.data() + np, mData.data() + np);
		return pos_type(np);
	}
	pos_type seekpos(pos_type p, std::ios_base::openmode m) override { return seekoff(off_type(p), std::ios_base::beg, m); }
private:
	std::string mData;
	size_t mFailAt;
	int mMode;
};

// Output buffer that accepts `limit` bytes then fails: mode 0 = overflow returns eof (stream sets badbit), 1 = throws.
class FailOutBuf : public std::streambuf {
public:
	FailOutBuf(size_t limit, int mode) : mLimit(limit), mMode(mode) {}
	const std::string& data() const { return mData; }
protected:
	int_type overflow(int_type ch) override {
		if (mData.size() >= mLimit) {
			if (mMode == 1) throw std::ios_base::failure("injected output failure");
			return traits_type::eof();
		}
		if (!traits_type::eq_int_type(ch, traits_type::eof())) mData.push_back(traits_type::to_char_type(ch));
		return traits_type::not_eof(ch);
	}
	std::streamsize xsputn(const char* s, std::streamsize n) override {
		std::streamsize done = 0;
		for (; done < n; ++done) {
			if (traits_type::eq_int_type(overflow(traits_type::to_int_type(s[done])), traits_type::eof())) break;
		}
		return done;
	}
private:
	std::string mData;
	size_t mLimit;
	int mMode;
};

}  // namespace vh
