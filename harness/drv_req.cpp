// Request-program driver for C03: a scripted object executes an arbitrary sequence of keyed requests against a document
// through the public scope API only and logs the bool result and the target value of every request.
//   op=run arch=.. src=.. doc=<hex> prog=<ops>     ops separated by ';'
//     G:<hexkey>:<type>            keyed load into a target pre-set to a sentinel (types: i64 u64 i32 u8 f64 bool str wstr ostr uptr atom tpms)
//     Gi:<int>:<type>              the same with an int64 key (MessagePack)
//     O:<hexkey>:<n>               open the object under the key and run the next n ops inside it
//     A:<hexkey>:<count>:<type>    open the array under the key and read at most <count> elements
//     V                            enumerate keys (VisitKeys)
//   the document is a root array [ object, 424242, "tail" ]  (CSV: rows; second row is read completely as sentinel)
#include "vh_common.h"
#include "models.h"
#include "bitserializer/rapidjson_archive.h"
#include "bitserializer/pugixml_archive.h"
#include "bitserializer/csv_archive.h"
#include "bitserializer/msgpack_archive.h"

using namespace BitSerializer;

struct Op { std::string kind; std::string key; long long ikey = 0; unsigned long long ukey = 0; std::string type; int count = 0; int nsub = 0; std::vector<std::string> vals; };
struct Program { std::vector<Op> ops; };
struct Log { std::string js = "["; void add(const std::string& rec) { if (js.size() > 1) js += ","; js += rec; } std::string done() const { return js + "]"; } };

static const mz::Ctx kCtx{};

// ---- dynamic validators: every slot wraps the real library validator selected by a spec string
//   R required | Rc required with custom message | G<lo>~<hi> Range<T> | N<k> MinSize | X<k> MaxSize | E Email | P PhoneNumber | L custom functor failing when loaded
template <class T> struct is_sized : std::false_type {};
template <class C, class Tr, class Al> struct is_sized<std::basic_string<C, Tr, Al>> : std::true_type {};
template <class T, class Al> struct is_sized<std::vector<T, Al>> : std::true_type {};
template <class T, class Al> struct is_sized<std::list<T, Al>> : std::true_type {};
template <class T, class Al> struct is_sized<std::deque<T, Al>> : std::true_type {};
template <class K, class V, class C, class Al> struct is_sized<std::map<K, V, C, Al>> : std::true_type {};
template <class K, class C, class Al> struct is_sized<std::set<K, C, Al>> : std::true_type {};
template <class K, class C, class Al> struct is_sized<std::multiset<K, C, Al>> : std::true_type {};
template <class T> struct is_u8str : std::false_type {};
template <> struct is_u8str<std::string> : std::true_type {};
template <> struct is_u8str<std::u16string> : std::true_type {};

template <class T> struct DynVal {
	std::string spec;
	std::optional<std::string> operator()(const T& v, bool loaded) const {
		if (spec.empty()) return std::nullopt;
		if (spec == "R") return Required()(v, loaded);
		if (spec == "Rc") return Required("custom-required")(v, loaded);
		if (spec == "L") return loaded ? std::make_optional<std::string>("custom-loaded") : std::nullopt;
		if (spec[0] == 'G') {
			if constexpr (std::is_arithmetic_v<T> && !std::is_same_v<T, bool>) {
				size_t sep = spec.find('~');
				std::string lo = spec.substr(1, sep - 1), hi = spec.substr(sep + 1);
				T l, h;
				if constexpr (std::is_floating_point_v<T>) { l = static_cast<T>(strtod(lo.c_str(), nullptr)); h = static_cast<T>(strtod(hi.c_str(), nullptr)); }
				else if constexpr (std::is_signed_v<T>) { l = static_cast<T>(strtoll(lo.c_str(), nullptr, 10)); h = static_cast<T>(strtoll(hi.c_str(), nullptr, 10)); }
				else { l = static_cast<T>(strtoull(lo.c_str(), nullptr, 10)); h = static_cast<T>(strtoull(hi.c_str(), nullptr, 10)); }
				return Range<T>(l, h)(v, loaded);
			}
			return std::make_optional<std::string>("harness: Range on a non-arithmetic target");
		}
		if (spec[0] == 'N' || spec[0] == 'X') {
			if constexpr (is_sized<T>::value) {
				size_t k = strtoull(spec.c_str() + 1, nullptr, 10);
				return spec[0] == 'N' ? MinSize(k)(v, loaded) : MaxSize(k)(v, loaded);
			}
			return std::make_optional<std::string>("harness: size validator on an unsized target");
		}
		if (spec == "E" || spec == "P") {
			if constexpr (is_u8str<T>::value) { return spec == "E" ? Email()(v, loaded) : PhoneNumber()(v, loaded); }
			return std::make_optional<std::string>("harness: string validator on another target");
		}
		return std::make_optional<std::string>("harness: unknown validator");
	}
};
struct Probe { bool* out; template <class T> std::optional<std::string> operator()(const T&, bool loaded) const { *out = loaded; return std::nullopt; } };

template <class A, class K, class T> static std::string getRec(A& archive, const K& key, T& target, const std::vector<std::string>& vals) {
	bool ok = false;
	if (vals.empty()) ok = Serialize(archive, key, target);
	else if (vals.size() == 1 && vals[0] == "R") archive << KeyValue(key, target, Required(), Probe{ &ok });
	else {
		DynVal<T> v0{ vals[0] }, v1{ vals.size() > 1 ? vals[1] : "" }, v2{ vals.size() > 2 ? vals[2] : "" };
		archive << KeyValue(key, target, v0, v1, v2, Probe{ &ok });
	}
	return std::string("{\"ok\":") + (ok ? "true" : "false") + ",\"v\":" + mz::desc(target, kCtx) + "}";
}

template <class T> static void makeFresh(T& t) { t = T{}; }
template <class T> static void makeFresh(std::atomic<T>& t) { t.store(T{}); }

using Tup3 = std::tuple<int32_t, std::string, double>;
using MapSI = std::map<std::string, int32_t>;
template <class A, class K> static std::string execGet(A& archive, const K& key, const std::string& type, const std::vector<std::string>& vals, bool fresh) {
#define TGT(NAME, TYPE, ...) if (type == NAME) { TYPE t __VA_ARGS__; if (fresh) makeFresh(t); return getRec(archive, key, t, vals); }
	TGT("i8", int8_t, = 0x5A) TGT("i16", int16_t, = 0x5A5A) TGT("i32", int32_t, = 0x5A5A5A5A) TGT("i64", int64_t, = 0x5A5A5A5A5A5A5A5ALL)
	TGT("u8", uint8_t, = 0x5A) TGT("u16", uint16_t, = 0x5A5A) TGT("u32", uint32_t, = 0x5A5A5A5Au) TGT("u64", uint64_t, = 0x5A5A5A5A5A5A5A5AULL)
	TGT("f32", float, = 1234.5f) TGT("f64", double, = 1234.5) TGT("bool", bool, = true)
	TGT("str", std::string, = "~sentinel~") TGT("wstr", std::u16string, = u"~sentinel~")
	TGT("ostr", std::optional<std::string>, = std::string("~sentinel~")) TGT("oi64", std::optional<int64_t>, = 77)
	TGT("uptr", std::unique_ptr<int32_t>, = std::make_unique<int32_t>(0x5A5A5A5A)) TGT("atom", std::atomic<int32_t>, { 0x5A5A5A5A })
	TGT("tpms", mz::tp_ms, { std::chrono::milliseconds(5555) })
	if constexpr (A::archive_type != ArchiveType::Csv) {
		TGT("v_i32", std::vector<int32_t>, = { 7, 8, 9 }) TGT("v_i64", std::vector<int64_t>, = { 7, 8, 9 }) TGT("v_u16", std::vector<uint16_t>, = { 7, 8, 9 })
		TGT("v_f32", std::vector<float>, = { 1.5f }) TGT("v_f64", std::vector<double>, = { 1.5 }) TGT("v_bool", std::vector<bool>, = { true })
		TGT("v_str", std::vector<std::string>, = { "~a~", "~b~" }) TGT("vv_i32", std::vector<std::vector<int32_t>>, = { { 7 }, { 8, 9 } })
		TGT("l_i64", std::list<int64_t>, = { 7, 8, 9 }) TGT("d_u16", std::deque<uint16_t>, = { 7, 8, 9 })
		TGT("s_i32", std::set<int32_t>, = { 7, 8, 9 }) TGT("ms_i32", std::multiset<int32_t>, = { 7, 7 }) TGT("tup", Tup3, = { -7, "~t~", -7.5 }) TGT("m_s_i32", MapSI, = { { "~k~", 7 } })
	}
#undef TGT
	return "{\"error\":\"type " + type + "\"}";
}

struct PartialArray { int count; std::string type; Log* log; };
template <class A> void SerializeArray(A& archive, PartialArray& pa) {
	std::string rec = "{\"elems\":[";
	for (int i = 0; i < pa.count && !archive.IsEnd(); ++i) {
		if (i) rec += ",";
		bool ok;
		if (pa.type == "i64") { int64_t t = 0x5A5A5A5A5A5A5A5ALL; ok = Serialize(archive, t); rec += std::string("{\"ok\":") + (ok ? "true" : "false") + ",\"v\":" + mz::desc(t, kCtx) + "}"; }
		else if (pa.type == "f64") { double t = 1234.5; ok = Serialize(archive, t); rec += std::string("{\"ok\":") + (ok ? "true" : "false") + ",\"v\":" + mz::desc(t, kCtx) + "}"; }
		else if (pa.type == "bool") { bool t = true; ok = Serialize(archive, t); rec += std::string("{\"ok\":") + (ok ? "true" : "false") + ",\"v\":" + mz::desc(t, kCtx) + "}"; }
		else { std::string t = "~sentinel~"; ok = Serialize(archive, t); rec += std::string("{\"ok\":") + (ok ? "true" : "false") + ",\"v\":" + mz::desc(t, kCtx) + "}"; }
	}
	rec += "]}";
	pa.log->add(rec);
}
size_t size(const PartialArray&) { return 0; }

static bool gFresh = false;
struct ObjArray { const Program* prog; size_t begin, end; Log* log; };
size_t size(const ObjArray&) { return 0; }
template <class A> void SerializeArray(A& archive, ObjArray& oa);
struct Scripted {
	const Program* prog = nullptr; size_t begin = 0, end = 0; Log* log = nullptr;
	template <class A> void Serialize(A& archive) {
		if constexpr (A::IsLoading()) {
			size_t i = begin;
			while (i < end) {
				const Op& op = prog->ops[i];
				if (op.kind == "G") { log->add(execGet(archive, op.key, op.type, op.vals, gFresh)); ++i; }
				else if (op.kind == "Gi" || op.kind == "Gu" || op.kind == "Gh" || op.kind == "Gb" || op.kind == "Gw") {
					// integer keys addressed with different C++ key types: int64_t, uint64_t, uint16_t, int8_t, uint32_t
					if constexpr (A::archive_type == ArchiveType::MsgPack) {
						if (op.kind == "Gi") log->add(execGet(archive, static_cast<int64_t>(op.ikey), op.type, op.vals, gFresh));
						else if (op.kind == "Gu") log->add(execGet(archive, static_cast<uint64_t>(op.ukey), op.type, op.vals, gFresh));
						else if (op.kind == "Gh") log->add(execGet(archive, static_cast<uint16_t>(op.ukey), op.type, op.vals, gFresh));
						else if (op.kind == "Gw") log->add(execGet(archive, static_cast<uint32_t>(op.ukey), op.type, op.vals, gFresh));
						else log->add(execGet(archive, static_cast<int8_t>(op.ikey), op.type, op.vals, gFresh));
					} else log->add("{\"error\":\"int key\"}");
					++i;
				}
				else if (op.kind == "O") {
					if constexpr (A::archive_type != ArchiveType::Csv) {
						Scripted child{ prog, i + 1, i + 1 + size_t(op.nsub), log };
						log->add("{\"open\":\"object\"}");
						bool ok = BitSerializer::Serialize(archive, op.key, child);
						log->add(std::string("{\"close\":\"object\",\"ok\":") + (ok ? "true" : "false") + "}");
					} else log->add("{\"error\":\"object in csv\"}");
					i += 1 + size_t(op.nsub);
				}
				else if (op.kind == "A") {
					if constexpr (A::archive_type != ArchiveType::Csv) {
						PartialArray pa{ op.count, op.type, log };
						bool ok = BitSerializer::Serialize(archive, op.key, pa);
						log->add(std::string("{\"array\":") + (ok ? "true" : "false") + "}");
					} else log->add("{\"error\":\"array in csv\"}");
					++i;
				}
				else if (op.kind == "AO") {
					if constexpr (A::archive_type != ArchiveType::Csv) {
						ObjArray oa{ prog, i + 1, i + 1 + size_t(op.nsub), log };
						log->add("{\"open\":\"objarray\"}");
						bool ok = BitSerializer::Serialize(archive, op.key, oa);
						log->add(std::string("{\"close\":\"objarray\",\"ok\":") + (ok ? "true" : "false") + "}");
					} else log->add("{\"error\":\"array in csv\"}");
					i += 1 + size_t(op.nsub);
				}
				else if (op.kind == "V") {
					std::string rec = "{\"keys\":[";
					bool first = true;
					archive.VisitKeys([&](auto&& k) {
						if (!first) rec += ","; first = false;
						using KT = std::decay_t<decltype(k)>;
						if constexpr (std::is_arithmetic_v<KT>) rec += std::to_string(k);
						else if constexpr (std::is_same_v<KT, Detail::CBinTimestamp>) rec += "\"ts\"";
						else rec += "\"" + vh::hex(std::string(std::string_view(k))) + "\"";
					});
					log->add(rec + "]}");
					++i;
				}
				else ++i;
			}
		}
	}
};

template <class A> void SerializeArray(A& archive, ObjArray& oa) {
	if constexpr (A::IsLoading()) {
		for (int n = 0; !archive.IsEnd(); ++n) {
			oa.log->add("{\"elem\":" + std::to_string(n) + "}");
			Scripted child{ oa.prog, oa.begin, oa.end, oa.log };
			Serialize(archive, child);
		}
	}
}

struct CsvSentinelRow {
	std::string a, b;
	template <class A> void Serialize(A& archive) { archive << KeyValue(std::string("s1"), a) << KeyValue(std::string("s2"), b); }
};

static Program parseProgram(const std::string& s) {
	Program p;
	size_t pos = 0;
	while (pos < s.size()) {
		size_t e = s.find(';', pos); if (e == std::string::npos) e = s.size();
		std::string tok = s.substr(pos, e - pos); pos = e + 1;
		if (tok.empty()) continue;
		std::vector<std::string> f; size_t q = 0;
		while (q <= tok.size()) { size_t c = tok.find(':', q); if (c == std::string::npos) c = tok.size(); f.push_back(tok.substr(q, c - q)); q = c + 1; }
		Op op; op.kind = f[0];
		if (op.kind == "G") { op.key = vh::unhex(f[1]); op.type = f[2]; if (f.size() > 3 && !f[3].empty()) { size_t q2 = 0; while (q2 <= f[3].size()) { size_t c2 = f[3].find(',', q2); if (c2 == std::string::npos) c2 = f[3].size(); op.vals.push_back(f[3].substr(q2, c2 - q2)); q2 = c2 + 1; } } }
		else if (op.kind == "Gi" || op.kind == "Gb") { op.ikey = strtoll(f[1].c_str(), nullptr, 10); op.type = f[2]; }
		else if (op.kind == "Gu" || op.kind == "Gh" || op.kind == "Gw") { op.ukey = strtoull(f[1].c_str(), nullptr, 10); op.type = f[2]; }
		else if (op.kind == "O" || op.kind == "AO") { op.key = vh::unhex(f[1]); op.nsub = atoi(f[2].c_str()); }
		else if (op.kind == "A") { op.key = vh::unhex(f[1]); op.count = atoi(f[2].c_str()); op.type = f[3]; }
		p.ops.push_back(op);
	}
	return p;
}

template <class TArchive, class TRoot> static std::string runWith(const vh::Case& c, TRoot& root, const SerializationOptions& opt) {
	std::string doc = c.bytes("doc"), src = c.get("src", "mem");
	size_t step = size_t(c.geti("step", 7));
	std::string out = "ok", exc, code, what, verrs;
	auto guarded = [&](auto&& f) {
		try { f(); }
		catch (const ValidationException& ex) {
			out = "validation"; exc = "BitSerializer::ValidationException"; code = Convert::ToString(ex.GetErrorCode()); what = ex.what();
			verrs = "{"; bool first = true;
			for (auto& kv : ex.GetValidationErrors()) {
				if (!first) verrs += ","; first = false;
				verrs += vh::jstr(vh::hex(kv.first)) + ":[";
				for (size_t m = 0; m < kv.second.size(); ++m) { if (m) verrs += ","; verrs += vh::jstr(vh::hex(kv.second[m])); }
				verrs += "]";
			}
			verrs += "}";
		}
		catch (const SerializationException& ex) { out = "exc"; exc = vh::demangle(typeid(ex).name()); code = Convert::ToString(ex.GetErrorCode()); what = ex.what(); }
		catch (const std::exception& ex) { out = "exc"; exc = vh::demangle(typeid(ex).name()); what = ex.what(); }
	};
	if (src == "mem") guarded([&] { LoadObject<TArchive>(root, doc, opt); });
	else {
		std::unique_ptr<std::streambuf> sb;
		if (src == "sstream") sb = std::make_unique<std::stringbuf>(doc, std::ios::in);
		else if (src == "slow") sb = std::make_unique<vh::SlowBuf>(doc, step);
		else sb = std::make_unique<vh::NoSeekBuf>(doc, step);
		std::istream is(sb.get());
		guarded([&] { LoadObject<TArchive>(root, is, opt); });
	}
	vh::JObj j; j.str("out", out);
	if (out != "ok") { j.str("exc", exc).str("code", code).str("what", what.substr(0, 160)); }
	if (!verrs.empty()) j.raw("verrs", verrs);
	return j.done();
}

static std::string opRun(const vh::Case& c) {
	Program prog = parseProgram(c.get("prog"));
	Log log;
	SerializationOptions opt;
	opt.mismatchedTypesPolicy = c.get("mis", "skip") == "skip" ? MismatchedTypesPolicy::Skip : MismatchedTypesPolicy::ThrowError;
	opt.overflowNumberPolicy = c.get("ovf", "skip") == "skip" ? OverflowNumberPolicy::Skip : OverflowNumberPolicy::ThrowError;
	opt.maxValidationErrors = uint32_t(c.geti("maxerr", 0));
	{ std::string sep = c.get("sep", "comma"); opt.valuesSeparator = sep == "semicolon" ? ';' : sep == "tab" ? '\t' : sep == "space" ? ' ' : sep == "pipe" ? '|' : ','; }
	gFresh = c.geti("fresh", 0) != 0;
	std::string arch = c.get("arch"), res, tail;
	Scripted s{ &prog, 0, prog.ops.size(), &log };
	if (arch == "csv") {
		CsvSentinelRow row;
		auto root = std::tie(s, row);
		std::tuple<Scripted&, CsvSentinelRow&> t(s, row);
		res = runWith<Csv::CsvArchive>(c, t, opt);
		tail = "[" + vh::jstr(vh::hex(row.a)) + "," + vh::jstr(vh::hex(row.b)) + "]";
	} else {
		int64_t sentinel = 0; std::string tailStr;
		std::tuple<Scripted&, int64_t&, std::string&> t(s, sentinel, tailStr);
		if (arch == "json") res = runWith<Json::RapidJson::JsonArchive>(c, t, opt);
		else if (arch == "xml") res = runWith<Xml::PugiXml::XmlArchive>(c, t, opt);
		else res = runWith<MsgPack::MsgPackArchive>(c, t, opt);
		tail = "[" + std::to_string(sentinel) + "," + vh::jstr(vh::hex(tailStr)) + "]";
	}
	return vh::JObj().str("id", c.get("id")).raw("res", res).raw("log", log.done()).raw("tail", tail).done();
}

// ---- C18: non-default map load modes.  op=mapmode arch=.. kind=si|ss|sv mode=clean|only|update prior=<hexdoc> doc=<hexdoc>
template <class M> struct ModeMap { M* m; MapLoadMode mode; };
namespace BitSerializer {
	template <class A, class M> void SerializeObject(A& archive, ModeMap<M>& w) { SerializeObject(archive, *w.m, w.mode); }
}
template <class TArchive, class M> static std::string mapModeWith(const vh::Case& c) {
	M m;
	SerializationOptions opt;
	std::string out = "ok", what;
	try {
		LoadObject<TArchive>(m, c.bytes("prior"), opt);
		std::string mode = c.get("mode", "clean");
		ModeMap<M> w{ &m, mode == "only" ? MapLoadMode::OnlyExistKeys : mode == "update" ? MapLoadMode::UpdateKeys : MapLoadMode::Clean };
		if (c.get("src", "mem") == "mem") LoadObject<TArchive>(w, c.bytes("doc"), opt);
		else { std::string d = c.bytes("doc"); vh::SlowBuf sb(d, size_t(c.geti("step", 7))); std::istream is(&sb); LoadObject<TArchive>(w, is, opt); }
	}
	catch (const std::exception& ex) { out = "exc"; what = ex.what(); }
	return vh::JObj().str("id", c.get("id")).str("out", out).str("what", what.substr(0, 200)).raw("desc", mz::desc(m, kCtx)).done();
}
template <class TArchive> static std::string mapModeArch(const vh::Case& c) {
	std::string kind = c.get("kind", "si");
	if (kind == "si") return mapModeWith<TArchive, std::map<std::string, int32_t>>(c);
	if (kind == "ss") return mapModeWith<TArchive, std::unordered_map<std::string, std::string>>(c);
	return mapModeWith<TArchive, std::map<std::string, std::vector<int32_t>>>(c);
}
static std::string opMapMode(const vh::Case& c) {
	std::string arch = c.get("arch");
	if (arch == "json") return mapModeArch<Json::RapidJson::JsonArchive>(c);
	if (arch == "xml") return mapModeArch<Xml::PugiXml::XmlArchive>(c);
	return mapModeArch<MsgPack::MsgPackArchive>(c);
}

// ---- XML attributes (C08 conformance, C04 numeric loads).  op=xattr mode=save|load ...
struct XAttr {
	int64_t ai = 0; std::string as; bool ab = false; double af = 0; uint8_t au8 = 0; int16_t ai16 = 0; uint32_t au32 = 0; float af32 = 0; std::string body;
	template <class A> void Serialize(A& archive) {
		archive << AttributeValue("ai", ai) << AttributeValue("as", as) << AttributeValue("ab", ab) << AttributeValue("af", af)
			<< AttributeValue("au8", au8) << AttributeValue("ai16", ai16) << AttributeValue("au32", au32) << AttributeValue("af32", af32) << KeyValue("body", body);
	}
};
static std::string opXAttr(const vh::Case& c) {
	XAttr x;
	SerializationOptions opt;
	opt.mismatchedTypesPolicy = c.get("mis", "throw") == "skip" ? MismatchedTypesPolicy::Skip : MismatchedTypesPolicy::ThrowError;
	opt.overflowNumberPolicy = c.get("ovf", "throw") == "skip" ? OverflowNumberPolicy::Skip : OverflowNumberPolicy::ThrowError;
	opt.formatOptions.enableFormat = c.geti("fmt", 0) != 0;
	std::string out = "ok", code, what, bytes;
	try {
		if (c.get("mode") == "save") {
			x.ai = c.geti("ai", 0); x.as = c.bytes("as"); x.ab = c.geti("ab", 0) != 0; x.au8 = uint8_t(c.geti("au8", 0)); x.ai16 = int16_t(c.geti("ai16", 0)); x.au32 = uint32_t(c.getu("au32", 0));
			uint64_t fb = strtoull(c.get("af", "0").c_str(), nullptr, 16); memcpy(&x.af, &fb, 8);
			uint32_t f32b = uint32_t(strtoul(c.get("af32", "0").c_str(), nullptr, 16)); memcpy(&x.af32, &f32b, 4);
			x.body = c.bytes("body");
			SaveObject<Xml::PugiXml::XmlArchive>(x, bytes, opt);
		} else {
			x.ai = 0x5A5A5A5A5A5A5A5ALL; x.as = "~sentinel~"; x.ab = true; x.af = 1234.5; x.au8 = 0x5A; x.ai16 = 0x5A5A; x.au32 = 0x5A5A5A5Au; x.af32 = 1234.5f; x.body = "~sentinel~";
			LoadObject<Xml::PugiXml::XmlArchive>(x, c.bytes("doc"), opt);
		}
	}
	catch (const SerializationException& ex) { out = "exc"; code = Convert::ToString(ex.GetErrorCode()); what = ex.what(); }
	catch (const std::exception& ex) { out = "exc"; code = "std"; what = ex.what(); }
	uint64_t fb; memcpy(&fb, &x.af, 8); uint32_t f32b; memcpy(&f32b, &x.af32, 4);
	char hb[40]; snprintf(hb, sizeof hb, "%016llx", (unsigned long long)fb); char hb32[16]; snprintf(hb32, sizeof hb32, "%08x", f32b);
	return vh::JObj().str("id", c.get("id")).str("out", out).str("code", code).str("what", what.substr(0, 200)).str("bytes", vh::hex(bytes))
		.num("ai", x.ai).str("as", vh::hex(x.as)).boolean("ab", x.ab).str("af", hb).num("au8", x.au8).num("ai16", x.ai16).num("au32", x.au32).str("af32", hb32).str("body", vh::hex(x.body)).done();
}

// ---- CSV tables (C09).  op=csv mode=save|load sep=comma|semicolon|tab|space|pipe enc=.. bom=0|1 sink/src=mem|sstream|slow cols=<hex,...> rows=<hex,..;hex,..>  ('-' = empty cell)
static std::vector<std::string> splitBy(const std::string& s, char d) { std::vector<std::string> out; size_t q = 0; if (s.empty()) return out; while (q <= s.size()) { size_t c = s.find(d, q); if (c == std::string::npos) c = s.size(); out.push_back(s.substr(q, c - q)); q = c + 1; } return out; }
static std::string opCsv(const vh::Case& c) {
	using Rows = std::vector<std::map<std::string, std::string>>;
	SerializationOptions opt;
	std::string sep = c.get("sep", "comma");
	opt.valuesSeparator = sep == "semicolon" ? ';' : sep == "tab" ? '\t' : sep == "space" ? ' ' : sep == "pipe" ? '|' : sep == "bad" ? '#' : ',';
	std::string enc = c.get("enc", "utf8");
	namespace U = BitSerializer::Convert::Utf;
	opt.streamOptions.encoding = enc == "utf16le" ? U::UtfType::Utf16le : enc == "utf16be" ? U::UtfType::Utf16be : enc == "utf32le" ? U::UtfType::Utf32le : enc == "utf32be" ? U::UtfType::Utf32be : U::UtfType::Utf8;
	opt.streamOptions.writeBom = c.geti("bom", 0) != 0;
	Rows rows;
	std::string out = "ok", exc, code, what, bytes;
	try {
		if (c.get("mode") == "save") {
			auto cols = splitBy(c.get("cols"), ',');
			for (auto& r : splitBy(c.get("rows"), ';')) {
				auto cells = splitBy(r, ',');
				std::map<std::string, std::string> m;
				for (size_t i = 0; i < cols.size() && i < cells.size(); ++i) m[vh::unhex(cols[i])] = cells[i] == "-" ? std::string() : vh::unhex(cells[i]);
				rows.push_back(std::move(m));
			}
			if (c.get("sink", "mem") == "mem") SaveObject<Csv::CsvArchive>(rows, bytes, opt);
			else { std::ostringstream os; SaveObject<Csv::CsvArchive>(rows, os, opt); bytes = os.str(); }
		} else {
			std::string doc = c.bytes("doc"), src = c.get("src", "mem");
			if (src == "mem") LoadObject<Csv::CsvArchive>(rows, doc, opt);
			else if (src == "sstream") { std::istringstream is(doc); LoadObject<Csv::CsvArchive>(rows, is, opt); }
			else { vh::SlowBuf sb(doc, size_t(c.geti("step", 7))); std::istream is(&sb); LoadObject<Csv::CsvArchive>(rows, is, opt); }
		}
	}
	catch (const SerializationException& ex) { out = "exc"; exc = vh::demangle(typeid(ex).name()); code = Convert::ToString(ex.GetErrorCode()); what = ex.what(); }
	catch (const std::exception& ex) { out = "exc"; exc = vh::demangle(typeid(ex).name()); code = "std"; what = ex.what(); }
	return vh::JObj().str("id", c.get("id")).str("out", out).str("exc", exc).str("code", code).str("what", what.substr(0, 200)).str("bytes", vh::hex(bytes)).raw("rows", mz::desc(rows, kCtx)).done();
}

int main() {
	std::string line;
	while (std::getline(std::cin, line)) {
		if (line.empty()) continue;
		auto c = vh::Case::parse(line);
		std::string out;
		try { out = c.get("op") == "mapmode" ? opMapMode(c) : c.get("op") == "xattr" ? opXAttr(c) : c.get("op") == "csv" ? opCsv(c) : opRun(c); }
		catch (const std::exception& ex) { out = vh::JObj().str("id", c.get("id")).str("error", std::string("driver exception: ") + ex.what()).done(); }
		std::cout << out << "\n" << std::flush;
	}
	return 0;
}
