// Request-program driver for C03: a scripted object executes an arbitrary sequence of keyed requests against a document
// through the public scope API only and logs the bool result and the target value of every request.
//   op=run arch=.. src=.. doc=<hex> prog=<ops>     ops separated by ';'
//     G:<hexkey>:<type>            keyed load into a target pre-set to a sentinel (types: i64 u64 i32 u8 f64 bool str wstr ostr uptr atom tpms)
//     Gi:<int>:<type>              the same with an int64 key (MessagePack)
//     O:<hexkey>:<n>               open the object under the key and run the next n ops inside it
//     A:<hexkey>:<count>:<type>    open the array under the key and read at most <count> elements
//     V                            enumerate keys (VisitKeys)
//   the document is a root array [ object, 424242, "tail" ]  (CSV: rows; second row is read completely as sentinel)
#include "vh_common.h"
#include "models.h"
#include "bitserializer/rapidjson_archive.h"
#include "bitserializer/pugixml_archive.h"
#include "bitserializer/csv_archive.h"
#include "bitserializer/msgpack_archive.h"

using namespace BitSerializer;

struct Op { std::string kind; std::string key; long long ikey = 0; std::string type; int count = 0; int nsub = 0; };
struct Program { std::vector<Op> ops; };
struct Log { std::string js = "["; void add(const std::string& rec) { if (js.size() > 1) js += ","; js += rec; } std::string done() const { return js + "]"; } };

static const mz::Ctx kCtx{};

template <class A, class K, class T> static std::string getRec(A& archive, const K& key, T& target) {
	bool ok = Serialize(archive, key, target);
	return std::string("{\"ok\":") + (ok ? "true" : "false") + ",\"v\":" + mz::desc(target, kCtx) + "}";
}

template <class A, class K> static std::string execGet(A& archive, const K& key, const std::string& type) {
	if (type == "i64") { int64_t t = 0x5A5A5A5A5A5A5A5ALL; return getRec(archive, key, t); }
	if (type == "u64") { uint64_t t = 0x5A5A5A5A5A5A5A5AULL; return getRec(archive, key, t); }
	if (type == "i32") { int32_t t = 0x5A5A5A5A; return getRec(archive, key, t); }
	if (type == "u8") { uint8_t t = 0x5A; return getRec(archive, key, t); }
	if (type == "f64") { double t = 1234.5; return getRec(archive, key, t); }
	if (type == "bool") { bool t = true; return getRec(archive, key, t); }
	if (type == "str") { std::string t = "~sentinel~"; return getRec(archive, key, t); }
	if (type == "wstr") { std::u16string t = u"~sentinel~"; return getRec(archive, key, t); }
	if (type == "ostr") { std::optional<std::string> t = std::string("~sentinel~"); return getRec(archive, key, t); }
	if (type == "oi64") { std::optional<int64_t> t = 77; return getRec(archive, key, t); }
	if (type == "uptr") { auto t = std::make_unique<int32_t>(0x5A5A5A5A); return getRec(archive, key, t); }
	if (type == "atom") { std::atomic<int32_t> t{ 0x5A5A5A5A }; return getRec(archive, key, t); }
	if (type == "tpms") { mz::tp_ms t{ std::chrono::milliseconds(5555) }; return getRec(archive, key, t); }
	return "{\"error\":\"type\"}";
}

struct PartialArray { int count; std::string type; Log* log; };
template <class A> void SerializeArray(A& archive, PartialArray& pa) {
	std::string rec = "{\"elems\":[";
	for (int i = 0; i < pa.count && !archive.IsEnd(); ++i) {
		if (i) rec += ",";
		bool ok;
		if (pa.type == "i64") { int64_t t = 0x5A5A5A5A5A5A5A5ALL; ok = Serialize(archive, t); rec += std::string("{\"ok\":") + (ok ? "true" : "false") + ",\"v\":" + mz::desc(t, kCtx) + "}"; }
		else if (pa.type == "f64") { double t = 1234.5; ok = Serialize(archive, t); rec += std::string("{\"ok\":") + (ok ? "true" : "false") + ",\"v\":" + mz::desc(t, kCtx) + "}"; }
		else if (pa.type == "bool") { bool t = true; ok = Serialize(archive, t); rec += std::string("{\"ok\":") + (ok ? "true" : "false") + ",\"v\":" + mz::desc(t, kCtx) + "}"; }
		else { std::string t = "~sentinel~"; ok = Serialize(archive, t); rec += std::string("{\"ok\":") + (ok ? "true" : "false") + ",\"v\":" + mz::desc(t, kCtx) + "}"; }
	}
	rec += "]}";
	pa.log->add(rec);
}
size_t size(const PartialArray&) { return 0; }

struct Scripted {
	const Program* prog = nullptr; size_t begin = 0, end = 0; Log* log = nullptr;
	template <class A> void Serialize(A& archive) {
		if constexpr (A::IsLoading()) {
			size_t i = begin;
			while (i < end) {
				const Op& op = prog->ops[i];
				if (op.kind == "G") { log->add(execGet(archive, op.key, op.type)); ++i; }
				else if (op.kind == "Gi") {
					if constexpr (A::archive_type == ArchiveType::MsgPack) log->add(execGet(archive, static_cast<int64_t>(op.ikey), op.type)); else log->add("{\"error\":\"int key\"}");
					++i;
				}
				else if (op.kind == "O") {
					if constexpr (A::archive_type != ArchiveType::Csv) {
						Scripted child{ prog, i + 1, i + 1 + size_t(op.nsub), log };
						log->add("{\"open\":\"object\"}");
						bool ok = BitSerializer::Serialize(archive, op.key, child);
						log->add(std::string("{\"close\":\"object\",\"ok\":") + (ok ? "true" : "false") + "}");
					} else log->add("{\"error\":\"object in csv\"}");
					i += 1 + size_t(op.nsub);
				}
				else if (op.kind == "A") {
					if constexpr (A::archive_type != ArchiveType::Csv) {
						PartialArray pa{ op.count, op.type, log };
						bool ok = BitSerializer::Serialize(archive, op.key, pa);
						log->add(std::string("{\"array\":") + (ok ? "true" : "false") + "}");
					} else log->add("{\"error\":\"array in csv\"}");
					++i;
				}
				else if (op.kind == "V") {
					std::string rec = "{\"keys\":[";
					bool first = true;
					archive.VisitKeys([&](auto&& k) {
						if (!first) rec += ","; first = false;
						using KT = std::decay_t<decltype(k)>;
						if constexpr (std::is_arithmetic_v<KT>) rec += std::to_string(k);
						else if constexpr (std::is_same_v<KT, Detail::CBinTimestamp>) rec += "\"ts\"";
						else rec += "\"" + vh::hex(std::string(std::string_view(k))) + "\"";
					});
					log->add(rec + "]}");
					++i;
				}
				else ++i;
			}
		}
	}
};

struct CsvSentinelRow {
	std::string a, b;
	template <class A> void Serialize(A& archive) { archive << KeyValue(std::string("s1"), a) << KeyValue(std::string("s2"), b); }
};

static Program parseProgram(const std::string& s) {
	Program p;
	size_t pos = 0;
	while (pos < s.size()) {
		size_t e = s.find(';', pos); if (e == std::string::npos) e = s.size();
		std::string tok = s.substr(pos, e - pos); pos = e + 1;
		if (tok.empty()) continue;
		std::vector<std::string> f; size_t q = 0;
		while (q <= tok.size()) { size_t c = tok.find(':', q); if (c == std::string::npos) c = tok.size(); f.push_back(tok.substr(q, c - q)); q = c + 1; }
		Op op; op.kind = f[0];
		if (op.kind == "G") { op.key = vh::unhex(f[1]); op.type = f[2]; }
		else if (op.kind == "Gi") { op.ikey = strtoll(f[1].c_str(), nullptr, 10); op.type = f[2]; }
		else if (op.kind == "O") { op.key = vh::unhex(f[1]); op.nsub = atoi(f[2].c_str()); }
		else if (op.kind == "A") { op.key = vh::unhex(f[1]); op.count = atoi(f[2].c_str()); op.type = f[3]; }
		p.ops.push_back(op);
	}
	return p;
}

template <class TArchive, class TRoot> static std::string runWith(const vh::Case& c, TRoot& root, const SerializationOptions& opt) {
	std::string doc = c.bytes("doc"), src = c.get("src", "mem");
	size_t step = size_t(c.geti("step", 7));
	std::string out = "ok", exc, code, what;
	auto guarded = [&](auto&& f) {
		try { f(); }
		catch (const SerializationException& ex) { out = "exc"; exc = vh::demangle(typeid(ex).name()); code = Convert::ToString(ex.GetErrorCode()); what = ex.what(); }
		catch (const std::exception& ex) { out = "exc"; exc = vh::demangle(typeid(ex).name()); what = ex.what(); }
	};
	if (src == "mem") guarded([&] { LoadObject<TArchive>(root, doc, opt); });
	else {
		std::unique_ptr<std::streambuf> sb;
		if (src == "sstream") sb = std::make_unique<std::stringbuf>(doc, std::ios::in);
		else if (src == "slow") sb = std::make_unique<vh::SlowBuf>(doc, step);
		else sb = std::make_unique<vh::NoSeekBuf>(doc, step);
		std::istream is(sb.get());
		guarded([&] { LoadObject<TArchive>(root, is, opt); });
	}
	vh::JObj j; j.str("out", out);
	if (out != "ok") { j.str("exc", exc).str("code", code).str("what", what.substr(0, 160)); }
	return j.done();
}

static std::string opRun(const vh::Case& c) {
	Program prog = parseProgram(c.get("prog"));
	Log log;
	SerializationOptions opt;
	opt.mismatchedTypesPolicy = c.get("mis", "skip") == "skip" ? MismatchedTypesPolicy::Skip : MismatchedTypesPolicy::ThrowError;
	opt.overflowNumberPolicy = c.get("ovf", "skip") == "skip" ? OverflowNumberPolicy::Skip : OverflowNumberPolicy::ThrowError;
	std::string arch = c.get("arch"), res, tail;
	Scripted s{ &prog, 0, prog.ops.size(), &log };
	if (arch == "csv") {
		CsvSentinelRow row;
		auto root = std::tie(s, row);
		std::tuple<Scripted&, CsvSentinelRow&> t(s, row);
		res = runWith<Csv::CsvArchive>(c, t, opt);
		tail = "[" + vh::jstr(vh::hex(row.a)) + "," + vh::jstr(vh::hex(row.b)) + "]";
	} else {
		int64_t sentinel = 0; std::string tailStr;
		std::tuple<Scripted&, int64_t&, std::string&> t(s, sentinel, tailStr);
		if (arch == "json") res = runWith<Json::RapidJson::JsonArchive>(c, t, opt);
		else if (arch == "xml") res = runWith<Xml::PugiXml::XmlArchive>(c, t, opt);
		else res = runWith<MsgPack::MsgPackArchive>(c, t, opt);
		tail = "[" + std::to_string(sentinel) + "," + vh::jstr(vh::hex(tailStr)) + "]";
	}
	return vh::JObj().str("id", c.get("id")).raw("res", res).raw("log", log.done()).raw("tail", tail).done();
}

int main() {
	std::string line;
	while (std::getline(std::cin, line)) {
		if (line.empty()) continue;
		auto c = vh::Case::parse(line);
		std::string out;
		try { out = opRun(c); }
		catch (const std::exception& ex) { out = vh::JObj().str("id", c.get("id")).str("error", std::string("driver exception: ") + ex.what()).done(); }
		std::cout << out << "\n" << std::flush;
	}
	return 0;
}
