#include "doc_ops.h"
#include "bitserializer/rapidjson_archive.h"
using TA = BitSerializer::Json::RapidJson::JsonArchive;
namespace doc {
void register_json_b(Registry& r) {
#define X(N, ...) reg<TA, __VA_ARGS__>(r, "json", #N);
	DOC_ROOT_VECTORS(X)
#undef X
}
}
