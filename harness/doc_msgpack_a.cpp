#include "doc_ops.h"
#include "bitserializer/msgpack_archive.h"
using TA = BitSerializer::MsgPack::MsgPackArchive;
namespace doc {
void register_msgpack_a(Registry& r) {
#define X(N, ...) reg<TA, __VA_ARGS__>(r, "msgpack", #N);
	DOC_ROOT_SCALARS(X) DOC_TYPED_KEY_MAPS(X)
#undef X
}
}
