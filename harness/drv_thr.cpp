// Thread-interference driver for C19 (built with -fsanitize=thread, and plain for the helgrind pass).
//   drv_thr threads=T iters=I seed=S [kinds=mask]
// T threads start together behind a spin barrier and run I serialization tasks each on their own objects, buffers and streams,
// sharing only constants: the default options, the enum registry, function-local statics of the library, const source objects
// and const input buffers.  Every task yields a digest (FNV-1a of the produced bytes and of the description of the loaded
// value); afterwards the same tasks are recomputed sequentially and compared.  ThreadSanitizer reports go to stderr.
#include "vh_common.h"
#include "models.h"
#include "bitserializer/rapidjson_archive.h"
#include "bitserializer/pugixml_archive.h"
#include "bitserializer/csv_archive.h"
#include "bitserializer/msgpack_archive.h"
#include <thread>
#include <atomic>
#include <sstream>

using namespace BitSerializer;
using Json::RapidJson::JsonArchive;
using Xml::PugiXml::XmlArchive;
using Csv::CsvArchive;
using MsgPack::MsgPackArchive;

static uint64_t fnv(const std::string& s, uint64_t h = 1469598103934665603ULL) { for (unsigned char c : s) { h ^= c; h *= 1099511628211ULL; } return h; }

static mz::Ctx ctxFor(unsigned arch) {
	mz::Ctx c; c.arch = arch; c.nonFinite = arch == mz::A_MP; c.xmlText = arch == mz::A_XML; c.emptyEqualsNull = arch == mz::A_XML || arch == mz::A_CSV; c.maxSize = 3;
	c.textNoEdgeSpace = arch == mz::A_XML || arch == mz::A_CSV;
	return c;
}

// shared constants (built by main before the threads start, never written afterwards)
struct Shared {
	mz::Derived constObj;
	std::string jsonDoc, xmlDoc, mpDoc, csvDoc;
};
static const Shared* gShared = nullptr;

template <class TArchive, class T> static uint64_t roundTripMem(uint64_t seed, unsigned arch) {
	mz::Ctx c = ctxFor(arch);
	vh::Rng rng(seed);
	T v{}; mz::gen(rng, v, c);
	std::string bytes;
	SaveObject<TArchive>(v, bytes);
	T l{};
	LoadObject<TArchive>(l, bytes);
	return fnv(mz::desc(l, c), fnv(bytes));
}

template <class TArchive, class T> static uint64_t roundTripStream(uint64_t seed, unsigned arch, Convert::Utf::UtfType enc) {
	mz::Ctx c = ctxFor(arch);
	vh::Rng rng(seed);
	T v{}; mz::gen(rng, v, c);
	SerializationOptions opt;
	opt.streamOptions.encoding = enc; opt.streamOptions.writeBom = true; opt.formatOptions.enableFormat = (seed & 1) != 0;
	std::stringstream ss;
	SaveObject<TArchive>(v, ss, opt);
	std::string bytes = ss.str();
	std::istringstream is(bytes);
	T l{};
	LoadObject<TArchive>(l, is, opt);
	return fnv(mz::desc(l, c), fnv(bytes));
}

static const int kKinds = 14;
static uint64_t runTask(int kind, uint64_t seed) {
	using Rows = std::vector<mz::CsvRow>;
	switch (kind) {
	case 0: return roundTripMem<JsonArchive, mz::Zoo>(seed, mz::A_JSON);
	case 1: return roundTripStream<JsonArchive, mz::Zoo>(seed, mz::A_JSON, Convert::Utf::UtfType::Utf16le);
	case 2: return roundTripMem<XmlArchive, mz::Zoo>(seed, mz::A_XML);
	case 3: return roundTripMem<MsgPackArchive, mz::Zoo>(seed, mz::A_MP);
	case 4: return roundTripStream<MsgPackArchive, mz::Zoo>(seed, mz::A_MP, Convert::Utf::UtfType::Utf8);
	case 5: return roundTripMem<CsvArchive, Rows>(seed, mz::A_CSV);
	case 6: return roundTripStream<CsvArchive, Rows>(seed, mz::A_CSV, Convert::Utf::UtfType::Utf32be);
	case 7: return roundTripMem<JsonArchive, std::map<mz::Color, int32_t>>(seed, mz::A_JSON) ^ roundTripMem<MsgPackArchive, std::vector<mz::Color>>(seed, mz::A_MP);
	case 8: return roundTripMem<MsgPackArchive, std::multimap<std::string, int32_t>>(seed, mz::A_MP) ^ roundTripMem<JsonArchive, std::pair<int32_t, std::string>>(seed, mz::A_JSON)
		^ roundTripMem<XmlArchive, std::pair<int32_t, std::string>>(seed, mz::A_XML);
	case 9: {
		// plain conversions: enum registry, numbers, chrono, UTF
		std::string s = Convert::ToString(mz::Color(seed % 2 ? mz::Color::Green : mz::Color::Big));
		s += Convert::ToString(Convert::To<mz::Color>(std::string_view("Blue")) == mz::Color::Blue);
		s += Convert::ToString(static_cast<int64_t>(seed)) + Convert::ToString(static_cast<double>(seed) / 7.0);
		s += Convert::ToString(mz::tp_ms(std::chrono::milliseconds(static_cast<int64_t>(seed % 4000000000000ULL))));
		s += Convert::ToString(Convert::To<std::u16string>(s).size());
		s += Convert::ToString(Convert::To<int32_t>(std::to_string(seed % 100000)));
		return fnv(s);
	}
	case 10: {
		// shared const source object saved concurrently by many threads
		std::string a, b, c;
		SaveObject<JsonArchive>(gShared->constObj, a);
		SaveObject<MsgPackArchive>(gShared->constObj, b);
		SaveObject<XmlArchive>(gShared->constObj, c);
		return fnv(c, fnv(b, fnv(a)));
	}
	case 11: {
		// shared const input buffers loaded concurrently into thread-local targets
		mz::Ctx cj = ctxFor(mz::A_JSON);
		mz::Derived a, b, x;
		std::vector<mz::CsvRow> rows;
		auto guard = [](const char* what, auto&& f) { try { f(); } catch (const std::exception& ex) { throw std::runtime_error(std::string(what) + ": " + ex.what()); } };
		guard("shared json", [&] { LoadObject<JsonArchive>(a, gShared->jsonDoc); });
		guard("shared msgpack", [&] { LoadObject<MsgPackArchive>(b, gShared->mpDoc); });
		guard("shared xml", [&] { LoadObject<XmlArchive>(x, gShared->xmlDoc); });
		guard("shared csv", [&] { LoadObject<CsvArchive>(rows, gShared->csvDoc); });
		return fnv(mz::desc(rows, cj), fnv(mz::desc(x, cj), fnv(mz::desc(b, cj), fnv(mz::desc(a, cj)))));
	}
	case 12: {
		// failing loads (exceptions, validation) must stay local to the thread
		std::string r;
		try { int32_t v = 0; LoadObject<JsonArchive>(v, std::string("[1,")); } catch (const SerializationException& ex) { r += Convert::ToString(ex.GetErrorCode()); }
		try { mz::Inner in; LoadObject<MsgPackArchive>(in, std::string("\x81\xa2id\xa3xyz", 8)); } catch (const SerializationException& ex) { r += Convert::ToString(ex.GetErrorCode()); }
		try { mz::Inner v; LoadObject<XmlArchive>(v, std::string("<root><id>" + std::to_string(seed) + "</id></root>")); r += std::to_string(v.id); } catch (const SerializationException& ex) { r += Convert::ToString(ex.GetErrorCode()); }
		return fnv(r);
	}
	default: return roundTripMem<MsgPackArchive, mz::DynNode>(seed, mz::A_MP) ^ roundTripMem<JsonArchive, mz::DynNode>(seed, mz::A_JSON);
	}
}

int main(int argc, char** argv) {
	std::string line;
	for (int i = 1; i < argc; ++i) { line += argv[i]; line += ' '; }
	auto c = vh::Case::parse(line);
	int threads = int(c.geti("threads", 8)), iters = int(c.geti("iters", 50));
	uint64_t seed = c.getu("seed", 1), mask = c.getu("kinds", (1u << kKinds) - 1);
	bool stagger = c.geti("stagger", 0) != 0;

	Shared sh;
	sh.constObj.bx = 7; sh.constObj.bs = u"base"; sh.constObj.dv = -5; sh.constObj.in.id = 3; sh.constObj.in.name = "inner"; sh.constObj.in.w = 0.5;
	sh.constObj.ins.resize(2); sh.constObj.ins[1].name = "second";
	sh.jsonDoc = "{\"bx\":7,\"bs\":\"base\",\"dv\":-5,\"in\":{\"id\":3,\"name\":\"inner\",\"w\":0.5},\"ins\":[{\"id\":0,\"name\":\"\",\"w\":0},{\"id\":1,\"name\":\"second\",\"w\":2}]}";
	sh.xmlDoc = "<root><bx>7</bx><bs>base</bs><dv>-5</dv><in><id>3</id><name>inner</name><w>0.5</w></in><ins><object><id>1</id><name>second</name><w>2</w></object></ins></root>";
	sh.mpDoc = vh::unhex("85a2627807a26273a462617365a26476fba2696e83a2696403a46e616d65a5696e6e6572a177cb3fe0000000000000a3696e739183a2696401a46e616d65a67365636f6e64a177cb4000000000000000");
	sh.csvDoc = "id,name,val,flag,big,wide,col,when,dur,opt,f,small\r\n1,\"a,b\",0.5,true,9,w,Green,1970-01-01T00:00:01.000Z,PT5S,3,1.5,-2\r\n";
	gShared = &sh;

	std::vector<std::vector<uint64_t>> results{ static_cast<size_t>(threads), std::vector<uint64_t>(static_cast<size_t>(iters)) };
	std::vector<std::vector<std::string>> errors(static_cast<size_t>(threads));
	std::vector<int> kindsUsed;
	for (int k = 0; k < kKinds; ++k) if (mask & (1ull << k)) kindsUsed.push_back(k);
	auto taskOf = [&](int t, int i) { vh::Rng r(seed * 1000003ULL + uint64_t(t) * 7919ULL + uint64_t(i)); int k = i < int(kindsUsed.size()) && !stagger ? kindsUsed[size_t(i)] : kindsUsed[size_t(r.range(0, int(kindsUsed.size()) - 1))]; return std::make_pair(k, r.next()); };

	std::atomic<int> ready{ 0 };
	std::atomic<bool> go{ false };
	std::vector<std::thread> pool;
	for (int t = 0; t < threads; ++t) {
		pool.emplace_back([&, t] {
			ready.fetch_add(1);
			while (!go.load(std::memory_order_acquire)) { }
			for (int i = 0; i < iters; ++i) {
				auto [k, s] = taskOf(t, i);
				try { results[size_t(t)][size_t(i)] = runTask(k, s); }
				catch (const std::exception& ex) { results[size_t(t)][size_t(i)] = 0xDEAD; errors[size_t(t)].push_back(std::string("kind ") + std::to_string(k) + ": " + ex.what()); }
				if ((s & 3) == 0) std::this_thread::yield();
			}
		});
	}
	while (ready.load() != threads) { }
	go.store(true, std::memory_order_release);
	for (auto& th : pool) th.join();

	// sequential golden run
	size_t mismatches = 0, ops = 0; std::string firstMismatch;
	std::vector<size_t> perKind(static_cast<size_t>(kKinds));
	for (int t = 0; t < threads; ++t) for (int i = 0; i < iters; ++i) {
		auto [k, s] = taskOf(t, i);
		uint64_t g;
		try { g = runTask(k, s); } catch (const std::exception&) { g = 0xDEAD; }
		++ops; ++perKind[size_t(k)];
		if (g != results[size_t(t)][size_t(i)]) { if (!mismatches) firstMismatch = "thread " + std::to_string(t) + " iter " + std::to_string(i) + " kind " + std::to_string(k) + " seed " + std::to_string(s); ++mismatches; }
	}
	std::string errs = "[";
	size_t nerr = 0;
	for (auto& ev : errors) for (auto& e : ev) { if (nerr++ < 5) { if (errs.size() > 1) errs += ","; errs += vh::jstr(e.substr(0, 200)); } }
	errs += "]";
	std::string pk = "[";
	for (int k = 0; k < kKinds; ++k) { if (k) pk += ","; pk += std::to_string(perKind[size_t(k)]); }
	pk += "]";
	std::cout << vh::JObj().num("threads", threads).num("iters", iters).num("ops", (long long)ops).num("mismatches", (long long)mismatches).str("first_mismatch", firstMismatch)
		.num("exceptions", (long long)nerr).raw("errors", errs).raw("per_kind", pk).done() << std::endl;
	return 0;
}
