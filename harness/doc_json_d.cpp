#include "doc_ops.h"
#include "bitserializer/rapidjson_archive.h"
using TA = BitSerializer::Json::RapidJson::JsonArchive;
namespace doc {
void register_json_d(Registry& r) {
#define X(N, ...) reg<TA, __VA_ARGS__>(r, "json", #N);
	DOC_OBJECTS_B(X) X(csvrows, std::vector<mz::CsvRow>)
#undef X
}
}
