// Document driver: save / load / roundtrip / shape for (archive, model type) under configurable options, sources and sinks.
//   op=save|load|roundtrip|shape arch=json|xml|csv|msgpack type=<name> [seed=..] [doc=<hex>] [src=mem|sstream|slow|noseek|failin] [sink=mem|sstream|failout]
//   isolate=1  -> the operation runs in a forked child under the process-level monitor (crash / terminate / hang / leak / allocation meter)
//   failalloc=k -> the k-th operator new inside the operation throws std::bad_alloc ; countalloc=1 -> report number of allocations
#include "doc_ops.h"

VH_DEFINE_ALLOC_METER

namespace doc {
void register_json_a(Registry&); void register_json_b(Registry&); void register_json_c(Registry&); void register_json_d(Registry&);
void register_xml_b(Registry&); void register_xml_c(Registry&); void register_xml_d(Registry&);
void register_csv(Registry&);
void register_msgpack_a(Registry&); void register_msgpack_b(Registry&); void register_msgpack_c(Registry&); void register_msgpack_d(Registry&);
}

static doc::Registry g_reg;

static unsigned archFlagOf(const std::string& a) { return a == "json" ? mz::A_JSON : a == "xml" ? mz::A_XML : a == "csv" ? mz::A_CSV : mz::A_MP; }

static std::string runOp(const vh::Case& c) {
	std::string arch = c.get("arch"), type = c.get("type"), op = c.get("op");
	auto it = g_reg.find(arch + "/" + type);
	if (it == g_reg.end()) return vh::JObj().str("id", c.get("id")).str("error", "unknown arch/type " + arch + "/" + type).done();
	doc::Req r; r.c = c;
	doc::fillOptions(r, archFlagOf(arch));
	doc::OpFn fn = op == "save" ? it->second.save : op == "load" ? it->second.load : op == "roundtrip" ? it->second.roundtrip : op == "shape" ? it->second.shape : op == "sweep" ? it->second.sweep : nullptr;
	if (!fn) return vh::JObj().str("id", c.get("id")).str("error", "unknown op").done();
	using M = vh::AllocMeter;
	bool meter = c.geti("meter", 0) != 0 || c.has("failalloc");
	if (meter) { M::reset(); M::hard_limit = (long long)c.getu("hardlimit", 1ull << 31); doc::MeterScope::wanted() = true; doc::MeterScope::pendingFailAt() = (long long)c.getu("failalloc", 0); }
	std::string out = fn(r);
	if (meter) {
		doc::MeterScope::wanted() = false;
		M::enabled = false;
		M::fail_at = 0;
		// append the meter to the JSON object
		out.pop_back();
		out += ",\"alloc\":{\"count\":" + std::to_string(M::count.load()) + ",\"peak\":" + std::to_string(M::peak.load()) + ",\"largest\":" + std::to_string(M::largest.load()) + "}}";
	}
	return out;
}

int main() {
	doc::register_json_a(g_reg); doc::register_json_b(g_reg); doc::register_json_c(g_reg); doc::register_json_d(g_reg);
	doc::register_xml_b(g_reg); doc::register_xml_c(g_reg); doc::register_xml_d(g_reg); doc::register_csv(g_reg);
	doc::register_msgpack_a(g_reg); doc::register_msgpack_b(g_reg); doc::register_msgpack_c(g_reg); doc::register_msgpack_d(g_reg);
	std::string line;
	while (std::getline(std::cin, line)) {
		if (line.empty()) continue;
		auto c = vh::Case::parse(line);
		std::string out;
		if (c.geti("isolate", 0)) {
			bool normalExit = c.geti("lsan", 0) != 0;
			auto r = vh::run_isolated([&] { return runOp(c); }, int(c.geti("cpu", 20)), 120, normalExit);
			if (r.kind == "ok" && !r.out.empty()) { out = r.out; out.pop_back(); out += ",\"cpu_ms\":" + std::to_string(r.cpu_ms) + "}"; }
			else {
				vh::JObj j; j.str("id", c.get("id")).str("out", "died").str("death", vh::classify_death(r)).str("kind", r.kind).num("code", r.code).num("cpu_ms", r.cpu_ms).str("stderr", r.err);
				if (!r.out.empty()) j.str("partial", r.out.substr(0, 300));
				out = j.done();
			}
		} else if (c.geti("leakprobe", 0) > 0) {
			// steady-state leak monitor: the same operation is repeated in this process and the number of live heap bytes (harness allocation
			// meter, counts every operator new / delete) is sampled after each repetition, when all objects of the operation are destroyed
			long n = c.geti("leakprobe", 0);
			std::string lives = "[";
			std::string last;
			for (long i = 0; i < n; ++i) {
				{
					std::string r;
					try { r = runOp(c); } catch (const std::exception& ex) { r = std::string("{\"error\":\"") + ex.what() + "\"}"; }
					if (i + 1 == n) last = r.substr(0, 400);
				}
				if (i) lives += ",";
				lives += std::to_string(vh::AllocMeter::live.load());
			}
			lives += "]";
			out = vh::JObj().str("id", c.get("id")).raw("live_after", lives).str("last", last).done();
		} else {
			try { out = runOp(c); }
			catch (const std::exception& ex) { out = vh::JObj().str("id", c.get("id")).str("error", std::string("driver exception: ") + ex.what()).done(); }
		}
		std::cout << out << "\n" << std::flush;
	}
	return 0;
}
