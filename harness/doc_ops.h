// Generic save / load / roundtrip operations over (archive, model type), used by the per-archive TUs of drv_doc.
#pragma once
#include "models.h"

namespace doc {

using namespace BitSerializer;
namespace U = BitSerializer::Convert::Utf;

struct Req {
	vh::Case c;
	SerializationOptions opt;
	mz::Ctx ctx;
};

inline U::UtfType parseEnc(const std::string& s) {
	if (s == "utf16le") return U::UtfType::Utf16le;
	if (s == "utf16be") return U::UtfType::Utf16be;
	if (s == "utf32le") return U::UtfType::Utf32le;
	if (s == "utf32be") return U::UtfType::Utf32be;
	return U::UtfType::Utf8;
}

inline void fillOptions(Req& r, unsigned archFlag) {
	const auto& c = r.c;
	r.opt.streamOptions.encoding = parseEnc(c.get("enc", "utf8"));
	r.opt.streamOptions.writeBom = c.geti("bom", 0) != 0;
	r.opt.formatOptions.enableFormat = c.geti("fmt", 0) != 0;
	r.opt.formatOptions.paddingChar = c.get("padc", "s") == "t" ? '\t' : ' ';
	r.opt.formatOptions.paddingCharNum = uint16_t(c.geti("padn", 2));
	r.opt.overflowNumberPolicy = c.get("ovf", "throw") == "skip" ? OverflowNumberPolicy::Skip : OverflowNumberPolicy::ThrowError;
	r.opt.mismatchedTypesPolicy = c.get("mis", "throw") == "skip" ? MismatchedTypesPolicy::Skip : MismatchedTypesPolicy::ThrowError;
	r.opt.utfEncodingErrorPolicy = c.get("utf", "throw") == "skip" ? U::UtfEncodingErrorPolicy::Skip : U::UtfEncodingErrorPolicy::ThrowError;
	r.opt.maxValidationErrors = uint32_t(c.geti("maxerr", 0));
	std::string sep = c.get("sep", "comma");
	r.opt.valuesSeparator = sep == "semicolon" ? ';' : sep == "tab" ? '\t' : sep == "space" ? ' ' : sep == "pipe" ? '|' : sep == "bad" ? '#' : ',';
	r.ctx.arch = archFlag;
	r.ctx.nonFinite = c.geti("nonfinite", archFlag == mz::A_MP ? 1 : 0) != 0;
	r.ctx.xmlText = archFlag == mz::A_XML;
	r.ctx.xmlCr = c.geti("xmlcr", 0) != 0;
	r.ctx.emptyEqualsNull = archFlag == mz::A_XML || archFlag == mz::A_CSV;
	r.ctx.textNoEdgeSpace = c.geti("noedgespace", 0) != 0;
	r.ctx.maxSize = int(c.geti("maxsize", 4));
	r.ctx.bigSizes = c.geti("bigsizes", 0) != 0;
	r.ctx.keyNul = c.geti("keynul", 0) != 0;
	r.ctx.badUtf = c.geti("badutf", 0) != 0;
	r.ctx.badEnum = c.geti("badenum", 0) != 0;
	r.ctx.ragged = c.geti("ragged", 0) != 0;
	r.ctx.padLen = long(c.geti("padlen", -1));
}

struct Outcome {
	std::string out = "ok";    // ok | exc
	std::string exc, code, what;
	std::string val;           // validation errors as JSON (path -> messages)
	bool streamFailed = false;
	void toJson(vh::JObj& j) const {
		j.str("out", out);
		if (out != "ok") { j.str("exc", exc); j.str("code", code); j.str("what", what.substr(0, 200)); }
		if (!val.empty()) j.raw("val", val);
		if (streamFailed) j.boolean("stream_failed", true);
	}
};

// Fault injection and metering are armed only around the library call (not around the harness code that prepares values and events)
struct MeterScope {
	static long long& pendingFailAt() { static long long v = 0; return v; }
	static bool& wanted() { static bool v = false; return v; }
	MeterScope() { if (wanted()) { vh::AllocMeter::fail_at = pendingFailAt() ? vh::AllocMeter::count.load() + pendingFailAt() : 0; vh::AllocMeter::enabled = true; } }
	~MeterScope() { if (wanted()) { pendingFailAt() = 0; vh::AllocMeter::fail_at = 0; vh::AllocMeter::enabled = false; } }
};

template <class F> Outcome guarded(F&& f) {
	Outcome o;
	MeterScope armed;
	try { f(); }
	catch (const ValidationException& ex) {
		o.out = "exc"; o.exc = "ValidationException"; o.code = Convert::ToString(ex.GetErrorCode()); o.what = ex.what();
		std::string js = "{"; bool first = true;
		for (auto& kv : ex.GetValidationErrors()) {
			if (!first) js += ","; first = false;
			js += vh::jstr(kv.first) + ":[";
			for (size_t i = 0; i < kv.second.size(); ++i) { if (i) js += ","; js += vh::jstr(kv.second[i]); }
			js += "]";
		}
		o.val = js + "}";
	}
	catch (const ParsingException& ex) { o.out = "exc"; o.exc = "ParsingException"; o.code = Convert::ToString(ex.GetErrorCode()); o.what = ex.what(); }
	catch (const SerializationException& ex) { o.out = "exc"; o.exc = "SerializationException"; o.code = Convert::ToString(ex.GetErrorCode()); o.what = ex.what(); }
	catch (const std::bad_alloc&) { o.out = "exc"; o.exc = "std::bad_alloc"; }
	catch (const std::exception& ex) { o.out = "exc"; o.exc = vh::demangle(typeid(ex).name()); o.what = ex.what(); }
	catch (...) { o.out = "exc"; o.exc = "non-std"; }
	return o;
}

// ---- load from the configured source kind
template <class TArchive, class T> Outcome loadFrom(T& target, const std::string& docBytes, const Req& r) {
	std::string src = r.c.get("src", "mem");
	size_t step = size_t(r.c.geti("step", 7));
	bool excMask = r.c.geti("excmask", 0) != 0;
	Outcome o;
	if (src == "mem") {
		return guarded([&] { LoadObject<TArchive>(target, docBytes, r.opt); });
	}
	auto run = [&](std::streambuf& sb) {
		std::istream is(&sb);
		if (excMask) is.exceptions(std::ios::badbit);
		Outcome oo = guarded([&] { LoadObject<TArchive>(target, is, r.opt); });
		return oo;
	};
	if (src == "sstream") { std::stringbuf sb(docBytes, std::ios::in); return run(sb); }
	if (src == "slow") { vh::SlowBuf sb(docBytes, step); return run(sb); }
	if (src == "noseek") { vh::NoSeekBuf sb(docBytes, step); return run(sb); }
	if (src == "failin") { vh::FailInBuf sb(docBytes, size_t(r.c.geti("failat", 0)), int(r.c.geti("failmode", 0))); return run(sb); }
	o.out = "exc"; o.exc = "harness"; o.what = "unknown src";
	return o;
}

// ---- save to the configured sink kind
template <class TArchive, class T> Outcome saveTo(T& value, std::string& outBytes, const Req& r) {
	std::string sink = r.c.get("sink", "mem");
	bool excMask = r.c.geti("excmask", 0) != 0;
	if (sink == "mem") return guarded([&] { SaveObject<TArchive>(value, outBytes, r.opt); });
	if (sink == "sstream") {
		std::ostringstream os;
		Outcome o = guarded([&] { SaveObject<TArchive>(value, os, r.opt); });
		outBytes = os.str();
		return o;
	}
	if (sink == "failout") {
		vh::FailOutBuf sb(size_t(r.c.geti("failat", 0)), int(r.c.geti("failmode", 0)));
		std::ostream os(&sb);
		if (excMask) os.exceptions(std::ios::badbit);
		Outcome o = guarded([&] { SaveObject<TArchive>(value, os, r.opt); });
		o.streamFailed = os.fail() || os.bad();
		outBytes = sb.data();
		return o;
	}
	Outcome o; o.out = "exc"; o.exc = "harness"; o.what = "unknown sink";
	return o;
}

inline std::string digest(const std::string& s) {
	uint64_t h = 1469598103934665603ull;
	for (unsigned char c : s) { h ^= c; h *= 1099511628211ull; }
	char b[20]; snprintf(b, sizeof b, "%016llx", static_cast<unsigned long long>(h));
	return b;
}

// ---- ops
template <class TArchive, class T> std::string opSave(const Req& r) {
	auto v = std::make_unique<T>();
	vh::Rng rng(r.c.getu("seed", 1));
	mz::gen(rng, *v, r.ctx);
	if constexpr (mz::is_tp<T>::value) { if (r.c.has("count")) *v = T(typename T::duration(static_cast<typename T::duration::rep>(r.c.geti("count")))); }
	if constexpr (mz::is_dur<T>::value) { if (r.c.has("count")) *v = T(static_cast<typename T::rep>(r.c.geti("count"))); }
	if constexpr (mz::is_std_string<T>::value) { if (r.c.has("strlen")) { v->assign(size_t(r.c.getu("strlen")), typename T::value_type('a')); } }
	if constexpr (std::is_same_v<T, std::vector<int32_t>> || std::is_same_v<T, std::vector<uint8_t>> || std::is_same_v<T, std::vector<char>>) { if (r.c.has("seqlen")) v->assign(size_t(r.c.getu("seqlen")), typename T::value_type(7)); }
	if constexpr (std::is_same_v<T, std::map<int64_t, std::string>>) { if (r.c.has("seqlen")) { v->clear(); for (uint64_t i = 0; i < r.c.getu("seqlen"); ++i) (*v)[int64_t(i)] = "v"; } }
	std::string bytes;
	Outcome o = saveTo<TArchive>(*v, bytes, r);
	vh::JObj j; j.str("id", r.c.get("id")); o.toJson(j);
	j.str("bytes", vh::hex(bytes));
	j.raw("desc", mz::desc(*v, r.ctx));
	return j.done();
}

template <class TArchive, class T> std::string opLoad(const Req& r) {
	auto v = std::make_unique<T>();
	if (r.c.has("prior")) { vh::Rng rng(r.c.getu("prior")); mz::Ctx c2 = r.ctx; c2.maxSize = int(r.c.geti("priorsize", 4)); mz::gen(rng, *v, c2); }
	std::string prior = r.c.has("prior") && r.c.geti("wantprior", 0) ? mz::desc(*v, r.ctx) : std::string();
	Outcome o = loadFrom<TArchive>(*v, r.c.bytes("doc"), r);
	vh::JObj j; j.str("id", r.c.get("id")); o.toJson(j);
	if (r.c.geti("nodesc", 0) == 0) j.raw("desc", mz::desc(*v, r.ctx));
	if (!prior.empty()) j.raw("prior", prior);
	return j.done();
}

// save -> load into a fresh object -> compare; then save the loaded object and load again (fixed point)
template <class TArchive, class T> std::string opRoundTrip(const Req& r) {
	auto v = std::make_unique<T>();
	vh::Rng rng(r.c.getu("seed", 1));
	mz::gen(rng, *v, r.ctx);
	std::string d0 = mz::desc(*v, r.ctx);
	std::string bytes;
	vh::JObj j; j.str("id", r.c.get("id"));
	Outcome so = saveTo<TArchive>(*v, bytes, r);
	if (so.out != "ok") { j.str("stage", "save"); so.toJson(j); j.raw("desc0", d0); return j.done(); }
	auto l1 = std::make_unique<T>();
	Outcome lo = loadFrom<TArchive>(*l1, bytes, r);
	std::string d1 = mz::desc(*l1, r.ctx);
	bool verbose = r.c.geti("verbose", 0) != 0;
	if (lo.out != "ok") { j.str("stage", "load"); lo.toJson(j); j.raw("desc0", d0); j.str("bytes", vh::hex(bytes.substr(0, 4096))); return j.done(); }
	if (d1 != d0) { j.str("stage", "compare"); j.str("out", "differs"); j.raw("desc0", d0); j.raw("desc1", d1); j.str("bytes", vh::hex(bytes.substr(0, 4096))); return j.done(); }
	// fixed point
	std::string bytes2;
	Outcome so2 = saveTo<TArchive>(*l1, bytes2, r);
	if (so2.out != "ok") { j.str("stage", "save2"); so2.toJson(j); j.raw("desc0", d0); return j.done(); }
	auto l2 = std::make_unique<T>();
	Outcome lo2 = loadFrom<TArchive>(*l2, bytes2, r);
	if (lo2.out != "ok") { j.str("stage", "load2"); lo2.toJson(j); j.raw("desc0", d0); return j.done(); }
	std::string d2 = mz::desc(*l2, r.ctx);
	if (d2 != d1) { j.str("stage", "fixedpoint"); j.str("out", "differs"); j.raw("desc0", d1); j.raw("desc1", d2); return j.done(); }
	j.str("stage", "done"); j.str("out", "ok"); j.str("digest", digest(d0)); j.unum("size", bytes.size()); j.boolean("stable_bytes", bytes == bytes2);
	if (verbose) { j.raw("desc0", d0); j.str("bytes", vh::hex(bytes.substr(0, 4096))); }
	return j.done();
}

// saves every integer of a list / range as its own document and returns the concatenation (MessagePack is self-delimiting)
template <class TArchive, class T> std::string opSweep(const Req& r) {
	if constexpr (std::is_integral_v<T> && !std::is_same_v<T, bool>) {
		std::string all;
		unsigned long long n = 0;
		bool stream = r.c.get("sink", "mem") != "mem";
		auto one = [&](T v) {
			std::string bytes;
			if (stream) { std::ostringstream os; SaveObject<TArchive>(v, os, r.opt); bytes = os.str(); } else SaveObject<TArchive>(v, bytes, r.opt);
			all += bytes; ++n;
		};
		if (r.c.has("vals")) {
			std::string vs = r.c.get("vals"); size_t p = 0;
			while (p < vs.size()) { size_t e = vs.find(',', p); if (e == std::string::npos) e = vs.size(); std::string tok = vs.substr(p, e - p);
				if constexpr (std::is_signed_v<T>) one(static_cast<T>(strtoll(tok.c_str(), nullptr, 10))); else one(static_cast<T>(strtoull(tok.c_str(), nullptr, 10))); p = e + 1; }
		} else {
			long long lo = r.c.geti("lo"), hi = r.c.geti("hi");
			for (long long v = lo; v <= hi; ++v) one(static_cast<T>(v));
		}
		return vh::JObj().str("id", r.c.get("id")).unum("n", n).str("bytes", vh::hex(all)).done();
	} else {
		return vh::JObj().str("id", r.c.get("id")).str("error", "sweep needs an integral root type").done();
	}
}

template <class T> std::string opShape(const Req& r) { return vh::JObj().str("id", r.c.get("id")).raw("shape", mz::shape<T>(r.ctx)).done(); }

using OpFn = std::string (*)(const Req&);
struct TypeEntry { OpFn save = nullptr, load = nullptr, roundtrip = nullptr, shape = nullptr, sweep = nullptr; };
using Registry = std::map<std::string, TypeEntry>;   // key = "<arch>/<type>"

template <class TArchive, class T> void reg(Registry& r, const char* arch, const char* type) {
	TypeEntry e; e.save = &opSave<TArchive, T>; e.load = &opLoad<TArchive, T>; e.roundtrip = &opRoundTrip<TArchive, T>; e.shape = &opShape<T>;
	if constexpr (TArchive::archive_type == ArchiveType::MsgPack) e.sweep = &opSweep<TArchive, T>;
	r[std::string(arch) + "/" + type] = e;
}

// type lists ------------------------------------------------------------------------------------------------
#define DOC_ROOT_SCALARS(X) \
	X(r_bool, bool) X(r_i8, int8_t) X(r_u8, uint8_t) X(r_i16, int16_t) X(r_u16, uint16_t) X(r_i32, int32_t) X(r_u32, uint32_t) X(r_i64, int64_t) X(r_u64, uint64_t) \
	X(r_f32, float) X(r_f64, double) X(r_str, std::string) X(r_wstr, std::wstring) X(r_u16str, std::u16string) X(r_u32str, std::u32string) X(r_enum, mz::Color) \
	X(r_tpms, mz::tp_ms) X(r_durs, std::chrono::seconds) X(r_char, char)
#define DOC_ROOT_VECTORS(X) \
	X(v_bool, std::vector<bool>) X(v_i8, std::vector<int8_t>) X(v_u8, std::vector<uint8_t>) X(v_i16, std::vector<int16_t>) X(v_u16, std::vector<uint16_t>) X(v_i32, std::vector<int32_t>) X(v_u32, std::vector<uint32_t>) \
	X(v_i64, std::vector<int64_t>) X(v_u64, std::vector<uint64_t>) X(v_f32, std::vector<float>) X(v_f64, std::vector<double>) X(v_str, std::vector<std::string>) X(v_u16str, std::vector<std::u16string>) \
	X(v_enum, std::vector<mz::Color>) X(v_tpns, std::vector<mz::tp_ns>) X(v_inner, std::vector<mz::Inner>) X(v_derived, std::vector<mz::Derived>) X(v_opt, std::vector<std::optional<int32_t>>) X(v_vec, std::vector<std::vector<std::string>>) \
	X(l_i32, std::list<int32_t>) X(fl_i32, std::forward_list<int32_t>) X(dq_str, std::deque<std::string>) X(set_i32, std::set<int32_t>) X(uset_str, std::unordered_set<std::string>) X(mmap, std::multimap<std::string, int32_t>) \
	X(arr3, std::array<int32_t, 3>) X(tup, std::tuple<int32_t, std::string, bool>) X(v_char, std::vector<char>) X(v_bytes, std::vector<std::vector<uint8_t>>)
#define DOC_OBJECTS_A(X) \
	X(scalars, mz::Scalars) X(chrono, mz::Chrono) X(containers, mz::Containers) X(maps, mz::Maps) X(wrappers, mz::Wrappers) X(derived, mz::Derived) X(dyn, mz::DynNode) X(inner, mz::Inner) \
	X(m_str_i32, std::map<std::string, int32_t>) X(m_str_str, std::map<std::string, std::string>) X(um_str_f64, std::unordered_map<std::string, double>) X(m_wstr_inner, std::map<std::wstring, mz::Inner>) \
	X(pair_is, std::pair<int32_t, std::string>)
#define DOC_OBJECTS_B(X) X(zoo, mz::Zoo) X(flaky, mz::FlakyHolder) X(padded, mz::Padded) X(v_padded, std::vector<mz::Padded>)
#define DOC_TYPED_KEY_MAPS(X) \
	X(m_i64_str, std::map<int64_t, std::string>) X(m_u8_i32, std::map<uint8_t, int32_t>) X(m_f64_i32, std::map<double, int32_t>) X(m_f32_i32, std::map<float, int32_t>) X(m_tps_i32, std::map<mz::tp_s, int32_t>) \
	X(m_durms_str, std::map<std::chrono::milliseconds, std::string>) X(m_enum_i32, std::map<mz::Color, int32_t>) X(m_bool_i32, std::map<bool, int32_t>)

}  // namespace doc
