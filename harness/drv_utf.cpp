// Driver for C11 (valid text transcoding is exact) and C12 (ill-formed input handled per policy).
// ops:
//   transcode  src=<hex bytes> from=<enc> to=<enc> path=decode|encode|api policy=skip|throw mark=default|none|<hex bytes in target enc> pre=<hex bytes in target enc>
//   sweep11    lo=<cp> hi=<cp>            exhaustive per-code-point check against the arithmetic reference (in-driver oracle)
//   dumpref    enc=<enc> lo=<cp> hi=<cp>  reference encoding of all scalars in [lo,hi) (checked against CPython codecs by the checker)
//   sweep12    kind=u8 len=<1..4> lo=<first byte> hi=<first byte>   /  kind=u16 | kind=u32
#include "vh_common.h"
#include <memory>
#include "bitserializer/convert.h"

using namespace BitSerializer;
namespace U = BitSerializer::Convert::Utf;

enum Enc { E8 = 0, E16LE, E16BE, E32LE, E32BE, E16N, E32N };
static const char* EncName[] = { "utf8", "utf16le", "utf16be", "utf32le", "utf32be", "utf16", "utf32" };
static int width(int e) { return e == E8 ? 1 : (e == E16LE || e == E16BE || e == E16N) ? 2 : 4; }
static bool big(int e) { return e == E16BE || e == E32BE; }
static int parseEnc(const std::string& s) {
	for (int i = 0; i < 7; ++i) if (s == EncName[i]) return i;
	return -1;
}

// ---------------------------------------------------------------- arithmetic reference (no tables)
static void refEncode(uint32_t cp, int enc, std::string& out) {
	auto put16 = [&](uint32_t u) { if (big(enc)) { out.push_back(char(u >> 8)); out.push_back(char(u & 0xFF)); } else { out.push_back(char(u & 0xFF)); out.push_back(char(u >> 8)); } };
	if (width(enc) == 1) {
		if (cp < 0x80) out.push_back(char(cp));
		else if (cp < 0x800) { out.push_back(char(0xC0 | (cp >> 6))); out.push_back(char(0x80 | (cp & 0x3F))); }
		else if (cp < 0x10000) { out.push_back(char(0xE0 | (cp >> 12))); out.push_back(char(0x80 | ((cp >> 6) & 0x3F))); out.push_back(char(0x80 | (cp & 0x3F))); }
		else { out.push_back(char(0xF0 | (cp >> 18))); out.push_back(char(0x80 | ((cp >> 12) & 0x3F))); out.push_back(char(0x80 | ((cp >> 6) & 0x3F))); out.push_back(char(0x80 | (cp & 0x3F))); }
	} else if (width(enc) == 2) {
		if (cp < 0x10000) put16(cp);
		else { uint32_t v = cp - 0x10000; put16(0xD800 + (v >> 10)); put16(0xDC00 + (v & 0x3FF)); }
	} else {
		if (big(enc)) { out.push_back(char(cp >> 24)); out.push_back(char((cp >> 16) & 0xFF)); out.push_back(char((cp >> 8) & 0xFF)); out.push_back(char(cp & 0xFF)); }
		else { out.push_back(char(cp & 0xFF)); out.push_back(char((cp >> 8) & 0xFF)); out.push_back(char((cp >> 16) & 0xFF)); out.push_back(char(cp >> 24)); }
	}
}
static bool isScalar(uint32_t cp) { return cp <= 0x10FFFF && !(cp >= 0xD800 && cp <= 0xDFFF); }

// Reference segmentation of arbitrary code units into scalars and maximal ill-formed subparts (Unicode 3.9, table 3-7).
struct Item { bool ok; uint32_t cp; size_t start; size_t len; };   // positions in code units
static uint32_t unitAt(const std::string& b, int enc, size_t i) {
	const unsigned char* p = reinterpret_cast<const unsigned char*>(b.data()) + i * width(enc);
	if (width(enc) == 1) return p[0];
	if (width(enc) == 2) return big(enc) ? (p[0] << 8 | p[1]) : (p[1] << 8 | p[0]);
	return big(enc) ? (uint32_t(p[0]) << 24 | p[1] << 16 | p[2] << 8 | p[3]) : (uint32_t(p[3]) << 24 | p[2] << 16 | p[1] << 8 | p[0]);
}
static std::vector<Item> refSegment(const std::string& bytes, int enc) {
	std::vector<Item> items;
	size_t n = bytes.size() / width(enc);
	size_t i = 0;
	while (i < n) {
		uint32_t u = unitAt(bytes, enc, i);
		if (width(enc) == 4) { items.push_back({ isScalar(u), u, i, 1 }); ++i; continue; }
		if (width(enc) == 2) {
			if (u < 0xD800 || u > 0xDFFF) { items.push_back({ true, u, i, 1 }); ++i; continue; }
			if (u <= 0xDBFF && i + 1 < n) {
				uint32_t l = unitAt(bytes, enc, i + 1);
				if (l >= 0xDC00 && l <= 0xDFFF) { items.push_back({ true, 0x10000 + ((u - 0xD800) << 10) + (l - 0xDC00), i, 2 }); i += 2; continue; }
			}
			items.push_back({ false, u, i, 1 }); ++i; continue;
		}
		// UTF-8
		if (u < 0x80) { items.push_back({ true, u, i, 1 }); ++i; continue; }
		int need = 0; uint32_t lo = 0x80, hi = 0xBF, cp = 0;
		if (u >= 0xC2 && u <= 0xDF) { need = 1; cp = u & 0x1F; }
		else if (u == 0xE0) { need = 2; lo = 0xA0; cp = 0; }
		else if (u >= 0xE1 && u <= 0xEC) { need = 2; cp = u & 0x0F; }
		else if (u == 0xED) { need = 2; hi = 0x9F; cp = 0x0D; }
		else if (u >= 0xEE && u <= 0xEF) { need = 2; cp = u & 0x0F; }
		else if (u == 0xF0) { need = 3; lo = 0x90; cp = 0; }
		else if (u >= 0xF1 && u <= 0xF3) { need = 3; cp = u & 0x07; }
		else if (u == 0xF4) { need = 3; hi = 0x8F; cp = 4; }
		else { items.push_back({ false, u, i, 1 }); ++i; continue; }
		size_t j = i + 1; int got = 0;
		for (; got < need && j < n; ++got, ++j) {
			uint32_t t = unitAt(bytes, enc, j);
			uint32_t l2 = got == 0 ? lo : 0x80, h2 = got == 0 ? hi : 0xBF;
			if (t < l2 || t > h2) break;
			cp = (cp << 6) | (t & 0x3F);
		}
		if (got == need) items.push_back({ true, cp, i, size_t(need) + 1 });
		else items.push_back({ false, u, i, size_t(got) + 1 });     // maximal subpart = lead + the valid tails seen
		i = i + size_t(got) + 1;
	}
	return items;
}

// ---------------------------------------------------------------- calling the library
struct Res { int ec = 0; long iter = -1; size_t count = 0; bool threw = false; std::string exc; };

template <class Ch> static std::basic_string<Ch> unitsFromBytes(const std::string& b) {
	std::basic_string<Ch> s(b.size() / sizeof(Ch), Ch());
	if (!s.empty()) memcpy(s.data(), b.data(), s.size() * sizeof(Ch));
	return s;
}
template <class Ch> static std::string bytesFromUnits(const std::basic_string<Ch>& s) {
	return std::string(reinterpret_cast<const char*>(s.data()), s.size() * sizeof(Ch));
}

template <class TUtf, class InCh, class OutCh>
static Res callDecode(const std::basic_string<InCh>& in, std::basic_string<OutCh>& out, U::UtfEncodingErrorPolicy pol, const OutCh* mark, bool defMark) {
	Res r;
	// exact-size heap copy without a terminator: a read at or behind `end` is seen by AddressSanitizer
	std::unique_ptr<InCh[]> exact(new InCh[in.size()]);
	std::copy(in.begin(), in.end(), exact.get());
	const InCh* b = exact.get();
	const InCh* e = exact.get() + in.size();
	auto res = defMark ? TUtf::Decode(b, e, out, pol) : TUtf::Decode(b, e, out, pol, mark);
	r.ec = int(res.ErrorCode); r.iter = long(res.Iterator - b); r.count = res.InvalidSequencesCount;
	return r;
}
template <class TUtf, class InCh, class OutCh>
static Res callEncode(const std::basic_string<InCh>& in, std::basic_string<OutCh>& out, U::UtfEncodingErrorPolicy pol, const OutCh* mark, bool defMark) {
	Res r;
	std::unique_ptr<InCh[]> exact(new InCh[in.size()]);
	std::copy(in.begin(), in.end(), exact.get());
	const InCh* b = exact.get();
	const InCh* e = exact.get() + in.size();
	auto res = defMark ? TUtf::Encode(b, e, out, pol) : TUtf::Encode(b, e, out, pol, mark);
	r.ec = int(res.ErrorCode); r.iter = long(res.Iterator - b); r.count = res.InvalidSequencesCount;
	return r;
}

template <class InCh, class OutCh>
static Res decodeBy(int enc, const std::basic_string<InCh>& in, std::basic_string<OutCh>& out, U::UtfEncodingErrorPolicy pol, const OutCh* mark, bool defMark) {
	if constexpr (sizeof(InCh) == 1) {
		if constexpr (sizeof(OutCh) == 1) { out.append(in.begin(), in.end()); Res r; r.iter = long(in.size()); return r; }
		else return callDecode<U::Utf8>(in, out, pol, mark, defMark);
	}
	else if constexpr (sizeof(InCh) == 2) {
		switch (enc) {
		case E16LE: return callDecode<U::Utf16Le>(in, out, pol, mark, defMark);
		case E16BE: return callDecode<U::Utf16Be>(in, out, pol, mark, defMark);
		default: return callDecode<U::Utf16>(in, out, pol, mark, defMark);
		}
	}
	else {
		switch (enc) {
		case E32LE: return callDecode<U::Utf32Le>(in, out, pol, mark, defMark);
		case E32BE: return callDecode<U::Utf32Be>(in, out, pol, mark, defMark);
		default: return callDecode<U::Utf32>(in, out, pol, mark, defMark);
		}
	}
}
template <class InCh, class OutCh>
static Res encodeBy(int enc, const std::basic_string<InCh>& in, std::basic_string<OutCh>& out, U::UtfEncodingErrorPolicy pol, const OutCh* mark, bool defMark) {
	if constexpr (sizeof(OutCh) == 1) {
		if constexpr (sizeof(InCh) == 1) { out.append(in.begin(), in.end()); Res r; r.iter = long(in.size()); return r; }
		else return callEncode<U::Utf8>(in, out, pol, mark, defMark);
	}
	else if constexpr (sizeof(OutCh) == 2) {
		switch (enc) {
		case E16LE: return callEncode<U::Utf16Le>(in, out, pol, mark, defMark);
		case E16BE: return callEncode<U::Utf16Be>(in, out, pol, mark, defMark);
		default: return callEncode<U::Utf16>(in, out, pol, mark, defMark);
		}
	}
	else {
		switch (enc) {
		case E32LE: return callEncode<U::Utf32Le>(in, out, pol, mark, defMark);
		case E32BE: return callEncode<U::Utf32Be>(in, out, pol, mark, defMark);
		default: return callEncode<U::Utf32>(in, out, pol, mark, defMark);
		}
	}
}

template <int W> struct ChOf;
template <> struct ChOf<1> { using type = char; };
template <> struct ChOf<2> { using type = char16_t; };
template <> struct ChOf<4> { using type = char32_t; };

// path=decode : From::Decode(bytes in `from` order) -> native units of to's width ; then To::Encode(same width) -> `to` order
// path=encode : (from must be native order) To::Encode(native units of from's width) -> `to` order   (validation happens in Encode)
// path=api    : Convert::To<std::basic_string<to width>>(basic_string_view<from width>)  (native order both sides; throws on error)
template <int WI, int WO>
static Res doTranscode(const std::string& src, int from, int to, const std::string& path, U::UtfEncodingErrorPolicy pol,
	const std::string& markBytes, bool defMark, bool noMark, const std::string& pre, std::string& outBytes) {
	using InCh = typename ChOf<WI>::type;
	using OutCh = typename ChOf<WO>::type;
	auto in = unitsFromBytes<InCh>(src);
	std::basic_string<OutCh> markStr = unitsFromBytes<OutCh>(markBytes);   // in native order
	const OutCh* mark = noMark ? nullptr : markStr.c_str();
	Res r;
	if (path == "api") {
		std::basic_string<OutCh> out = unitsFromBytes<OutCh>(pre);
		try {
			out = Convert::To<std::basic_string<OutCh>>(std::basic_string_view<InCh>(in), out);
		} catch (const std::exception& ex) { r.threw = true; r.exc = vh::demangle(typeid(ex).name()); r.ec = 1; }
		outBytes = bytesFromUnits(out);
		if (!r.threw) r.iter = long(in.size());
		return r;
	}
	if (path == "encode") {
		std::basic_string<OutCh> out = unitsFromBytes<OutCh>(pre);
		r = encodeBy<InCh, OutCh>(to, in, out, pol, mark, defMark);
		outBytes = bytesFromUnits(out);
		return r;
	}
	// decode path
	if (width(to) == WO && (to == E8 || to == E16N || to == E32N || !big(to))) {
		// target is native order: decode straight into pre
		std::basic_string<OutCh> out = unitsFromBytes<OutCh>(pre);
		r = decodeBy<InCh, OutCh>(from, in, out, pol, mark, defMark);
		outBytes = bytesFromUnits(out);
		return r;
	}
	std::basic_string<OutCh> tmp;
	r = decodeBy<InCh, OutCh>(from, in, tmp, pol, mark, defMark);
	std::basic_string<OutCh> out = unitsFromBytes<OutCh>(pre);
	Res r2 = encodeBy<OutCh, OutCh>(to, tmp, out, pol, mark, defMark);
	if (r2.ec != 0 && r.ec == 0) { r.ec = 100 + r2.ec; }
	outBytes = bytesFromUnits(out);
	return r;
}

static Res transcodeDispatch(const std::string& src, int from, int to, const std::string& path, U::UtfEncodingErrorPolicy pol,
	const std::string& markBytes, bool defMark, bool noMark, const std::string& pre, std::string& outBytes) {
	int wi = width(from), wo = width(to);
#define D(A, B) if (wi == A && wo == B) return doTranscode<A, B>(src, from, to, path, pol, markBytes, defMark, noMark, pre, outBytes);
	D(1, 1) D(1, 2) D(1, 4) D(2, 1) D(2, 2) D(2, 4) D(4, 1) D(4, 2) D(4, 4)
#undef D
	return Res{};
}

static std::string opTranscode(const vh::Case& c) {
	int from = parseEnc(c.get("from")), to = parseEnc(c.get("to"));
	std::string path = c.get("path", "decode");
	auto pol = c.get("policy", "skip") == "throw" ? U::UtfEncodingErrorPolicy::ThrowError : U::UtfEncodingErrorPolicy::Skip;
	std::string mark = c.get("mark", "default");
	bool defMark = mark == "default", noMark = mark == "none";
	std::string out;
	Res r;
	try {
		r = transcodeDispatch(c.bytes("src"), from, to, path, pol, (defMark || noMark) ? std::string() : vh::unhex(mark), defMark, noMark, c.bytes("pre"), out);
	} catch (const std::exception& ex) { r.threw = true; r.exc = vh::demangle(typeid(ex).name()); }
	return vh::JObj().str("id", c.get("id")).str("out", vh::hex(out)).num("ec", r.ec).num("iter", r.iter).unum("count", r.count)
		.boolean("threw", r.threw).str("exc", r.exc).done();
}

// ---------------------------------------------------------------- C11 exhaustive sweep
static std::string opSweep11(const vh::Case& c) {
	uint32_t lo = uint32_t(c.getu("lo")), hi = uint32_t(c.getu("hi"));
	unsigned long long checked = 0, calls = 0, nfail = 0;
	std::string fails = "[";
	auto fail = [&](uint32_t cp, int from, int to, const char* path, const char* pol, const std::string& why) {
		if (nfail++ < 5) {
			if (fails.size() > 1) fails += ",";
			fails += vh::JObj().unum("cp", cp).str("from", EncName[from]).str("to", EncName[to]).str("path", path).str("policy", pol).str("why", why).done();
		}
	};
	static const int encs5[] = { E8, E16LE, E16BE, E32LE, E32BE };
	for (uint32_t cp = lo; cp < hi; ++cp) {
		if (!isScalar(cp)) continue;
		++checked;
		std::string ref[7];
		for (int e = 0; e < 7; ++e) refEncode(cp, e, ref[e]);
		for (int pi = 0; pi < 2; ++pi) {
			auto pol = pi ? U::UtfEncodingErrorPolicy::ThrowError : U::UtfEncodingErrorPolicy::Skip;
			const char* pn = pi ? "throw" : "skip";
			// 20 ordered pairs among the five byte-order-specific encodings (+ the two native aliases as sources/targets)
			for (int from = 0; from < 7; ++from) for (int to = 0; to < 7; ++to) {
				if (from == to) continue;
				if (from >= 5 && to >= 5 && width(from) == width(to)) continue;
				std::string out;
				const std::string pre = ref[to];   // append to a non-empty output: must not be disturbed
				Res r = transcodeDispatch(ref[from], from, to, "decode", pol, "", true, false, pre, out);
				++calls;
				if (r.ec != 0 || r.count != 0 || r.iter != long(ref[from].size() / width(from)) || out != pre + ref[to])
					fail(cp, from, to, "decode", pn, "ec=" + std::to_string(r.ec) + " count=" + std::to_string(r.count) + " iter=" + std::to_string(r.iter) + " out=" + vh::hex(out));
				// encode path: source must be in native order and of a different width
				if ((from == E8 || from == E16LE || from == E32LE || from == E16N || from == E32N) && width(from) != width(to)) {
					std::string out2;
					Res r2 = transcodeDispatch(ref[from], from, to, "encode", pol, "", true, false, pre, out2);
					++calls;
					if (r2.ec != 0 || r2.count != 0 || r2.iter != long(ref[from].size() / width(from)) || out2 != pre + ref[to])
						fail(cp, from, to, "encode", pn, "ec=" + std::to_string(r2.ec) + " count=" + std::to_string(r2.count) + " iter=" + std::to_string(r2.iter) + " out=" + vh::hex(out2));
				}
			}
		}
		// Convert::To between native string types (api path)
		static const int nat[] = { E8, E16N, E32N };
		for (int a : nat) for (int b : nat) {
			std::string out;
			Res r = transcodeDispatch(ref[a], a, b, "api", U::UtfEncodingErrorPolicy::ThrowError, "", true, false, "", out);
			++calls;
			if (r.threw || out != ref[b]) fail(cp, a, b, "api", "throw", "threw=" + r.exc + " out=" + vh::hex(out));
		}
		(void)encs5;
	}
	fails += "]";
	return vh::JObj().str("id", c.get("id")).unum("checked", checked).unum("calls", calls).unum("nfail", nfail).raw("fails", fails).done();
}

static std::string opDumpRef(const vh::Case& c) {
	int enc = parseEnc(c.get("enc"));
	uint32_t lo = uint32_t(c.getu("lo")), hi = uint32_t(c.getu("hi"));
	std::string out;
	for (uint32_t cp = lo; cp < hi; ++cp) if (isScalar(cp)) refEncode(cp, enc, out);
	return vh::JObj().str("id", c.get("id")).str("out", vh::hex(out)).done();
}

// ---------------------------------------------------------------- C12 in-driver oracle over short strings
// Target mark: a scalar that never occurs in the generated inputs (U+2610 default mark is fine for these sweeps: inputs that
// decode to U+2610 are skipped by the oracle as ambiguous).
struct SweepStat { unsigned long long cases = 0, illformed = 0, calls = 0, nfail = 0; std::string fails = "["; };

static void judge12(const std::string& src, int from, int to, const char* path, SweepStat& st) {
	const auto items = refSegment(src, from);
	const size_t n = src.size() / width(from);
	bool wellFormed = true; size_t firstBad = n;
	for (auto& it : items) if (!it.ok) { wellFormed = false; firstBad = it.start; break; }
	for (auto& it : items) if (it.ok && it.cp == 0x2610) return;   // ambiguous with the mark
	if (!wellFormed) ++st.illformed;
	std::string markRef; refEncode(0x2610, to == E8 ? E8 : (width(to) == 2 ? E16N : E32N), markRef);
	auto fail = [&](const char* pol, const std::string& why, const std::string& out) {
		if (st.nfail++ < 6) {
			if (st.fails.size() > 1) st.fails += ",";
			st.fails += vh::JObj().str("src", vh::hex(src)).str("from", EncName[from]).str("to", EncName[to]).str("path", path).str("policy", pol).str("why", why).str("out", vh::hex(out)).done();
		}
	};
	// ---- ThrowError
	{
		std::string out;
		Res r = transcodeDispatch(src, from, to, path, U::UtfEncodingErrorPolicy::ThrowError, "", true, false, "", out);
		++st.calls;
		if (wellFormed) {
			std::string exp; for (auto& it : items) refEncode(it.cp, to, exp);
			if (r.ec != 0 || out != exp || r.iter != long(n)) fail("throw", "valid input: ec=" + std::to_string(r.ec) + " iter=" + std::to_string(r.iter), out);
		} else {
			if (r.ec == 0) fail("throw", "ill-formed input accepted", out);
			else if (r.iter != long(firstBad)) fail("throw", "iterator " + std::to_string(r.iter) + " != start of first ill-formed sequence " + std::to_string(firstBad), out);
			else {
				// output must hold exactly the scalars before the error
				std::string exp; for (auto& it : items) { if (!it.ok) break; refEncode(it.cp, to, exp); }
				if (out != exp) fail("throw", "output before the error differs from the well-formed prefix", out);
			}
		}
	}
	// ---- Skip (default mark)
	{
		std::string out;
		Res r = transcodeDispatch(src, from, to, path, U::UtfEncodingErrorPolicy::Skip, "", true, false, "", out);
		++st.calls;
		// expected: scalars in order, each maximal run of ill-formed items -> 1..runUnits marks
		auto outItems = refSegment(out, to);
		size_t oi = 0; size_t marks = 0; bool ok = true; std::string why;
		size_t stopAt = n;   // where the library may legitimately stop with UnexpectedEnd
		if (r.ec == int(U::UtfEncodingErrorCode::UnexpectedEnd)) {
			if (r.iter < 0 || size_t(r.iter) > n) { ok = false; why = "iterator out of range"; }
			else stopAt = size_t(r.iter);
		} else if (r.ec != 0) { ok = false; why = "Skip policy returned error code " + std::to_string(r.ec); }
		for (auto& o : outItems) if (!o.ok) { ok = false; why = "output is ill-formed in the target encoding"; break; }
		size_t k = 0;
		while (ok && k < items.size() && items[k].start < stopAt) {
			if (items[k].ok) {
				if (items[k].start + items[k].len > stopAt) break;
				if (oi >= outItems.size() || outItems[oi].cp != items[k].cp) { ok = false; why = "well-formed text lost or altered at unit " + std::to_string(items[k].start); break; }
				++oi; ++k;
			} else {
				size_t runUnits = 0;
				while (k < items.size() && !items[k].ok && items[k].start < stopAt) { runUnits += items[k].len; ++k; }
				size_t got = 0;
				while (oi < outItems.size() && outItems[oi].cp == 0x2610 && got < runUnits) { ++oi; ++got; }
				if (got == 0) { ok = false; why = "ill-formed run not replaced by a mark"; break; }
				marks += got;
			}
		}
		if (ok && oi != outItems.size()) { ok = false; why = "extra output after the expected text"; }
		if (ok && r.count != marks) { ok = false; why = "InvalidSequencesCount " + std::to_string(r.count) + " != marks " + std::to_string(marks); }
		if (ok && stopAt < n) {
			// the unread tail must be an incomplete (truncated) sequence: its first item is ill-formed and reaches the end of input
			bool tailOk = false;
			for (auto& it : items) if (it.start == stopAt) { tailOk = !it.ok || it.start + it.len > n; }
			size_t tailUnits = n - stopAt;
			if (!tailOk || tailUnits > 5) { ok = false; why = "UnexpectedEnd reported but the unread tail is not a truncated sequence"; }
		}
		if (!ok) fail("skip", why, out);
	}
}

static std::string opSweep12(const vh::Case& c) {
	std::string kind = c.get("kind");
	SweepStat st;
	if (kind == "u8") {
		int len = int(c.geti("len"));
		unsigned lo = unsigned(c.getu("lo")), hi = unsigned(c.getu("hi"));
		std::string tails = c.bytes("tails");   // for len 4: class representatives for the 2nd..4th byte
		for (unsigned b0 = lo; b0 < hi; ++b0) {
			if (len == 1) { std::string s(1, char(b0)); ++st.cases; for (int to : { E16N, E32N, E16BE, E32BE }) judge12(s, E8, to, "decode", st); }
			else if (len == 2) for (unsigned b1 = 0; b1 < 256; ++b1) { std::string s{ char(b0), char(b1) }; ++st.cases; for (int to : { E16N, E32N }) judge12(s, E8, to, "decode", st); }
			else if (len == 3) for (unsigned b1 = 0; b1 < 256; ++b1) for (unsigned b2 = 0; b2 < 256; ++b2) { std::string s{ char(b0), char(b1), char(b2) }; ++st.cases; judge12(s, E8, (b2 & 1) ? E16N : E32N, "decode", st); }
			else for (char b1 : tails) for (char b2 : tails) for (char b3 : tails) { std::string s{ char(b0), b1, b2, b3 }; ++st.cases; for (int to : { E16N, E32N }) judge12(s, E8, to, "decode", st); }
		}
	} else if (kind == "u16") {
		// all pairs/triples over class representatives
		std::vector<uint32_t> reps = { 0x0041, 0x00E9, 0x07FF, 0x0800, 0xD7FF, 0xD800, 0xD801, 0xDBFE, 0xDBFF, 0xDC00, 0xDC01, 0xDFFE, 0xDFFF, 0xE000, 0xFFFD, 0xFFFF, 0x0000 };
		int len = int(c.geti("len"));
		std::vector<size_t> idx(size_t(len), 0);
		for (;;) {
			for (int from : { E16N, E16LE, E16BE }) {
				std::string s; for (int i = 0; i < len; ++i) { uint32_t u = reps[idx[size_t(i)]]; if (big(from)) { s.push_back(char(u >> 8)); s.push_back(char(u & 0xFF)); } else { s.push_back(char(u & 0xFF)); s.push_back(char(u >> 8)); } }
				++st.cases;
				for (int to : { E8, E32N, E32BE }) judge12(s, from, to, "decode", st);
				if (from != E16BE) for (int to : { E8, E32N }) judge12(s, from, to, "encode", st);
			}
			int p = len - 1;
			while (p >= 0 && ++idx[size_t(p)] == reps.size()) { idx[size_t(p)] = 0; --p; }
			if (p < 0) break;
		}
	} else if (kind == "u32") {
		uint32_t lo = uint32_t(c.getu("lo")), hi = uint32_t(c.getu("hi"));
		uint32_t step = uint32_t(c.getu("step", 1));
		for (uint64_t u = lo; u < hi; u += step) {
			for (int from : { E32N, E32BE }) {
				std::string s; refEncode(uint32_t(u), from, s);
				std::string s2 = s; refEncode(0x41, from, s2);
				++st.cases;
				for (int to : { E8, E16N }) { judge12(s, from, to, "decode", st); judge12(s2, from, to, "decode", st); if (from == E32N) judge12(s, from, to, "encode", st); }
			}
		}
	}
	st.fails += "]";
	return vh::JObj().str("id", c.get("id")).unum("cases", st.cases).unum("illformed", st.illformed).unum("calls", st.calls).unum("nfail", st.nfail).raw("fails", st.fails).done();
}

// segmentation of arbitrary input by the in-driver reference, so that the checker can cross-check the reference against CPython
static std::string opRefSeg(const vh::Case& c) {
	int enc = parseEnc(c.get("enc"));
	auto items = refSegment(c.bytes("src"), enc);
	std::string s = "[";
	for (auto& it : items) { if (s.size() > 1) s += ","; s += it.ok ? std::to_string(it.cp) : ("-" + std::to_string(it.len)); }
	s += "]";
	return vh::JObj().str("id", c.get("id")).raw("items", s).done();
}

// ---------------------------------------------------------------- C13: encoded streams
//   op=encread doc=<hex bytes> chunk=32|64|256 width=1|2|4 policy=skip|throw src=sstream|slow step=N
//   op=encwrite enc=.. bom=0|1 policy=.. width=1|2|4 text=<hex in UTF-8/16le/32le units of the given width> pieces=<n,n,..>
//   op=detect doc=<hex>
template <class Ch, size_t Chunk> static std::string encReadWith(const vh::Case& c) {
	std::string doc = c.bytes("doc");
	auto pol = c.get("policy", "skip") == "skip" ? U::UtfEncodingErrorPolicy::Skip : U::UtfEncodingErrorPolicy::ThrowError;
	std::unique_ptr<std::streambuf> sb;
	if (c.get("src", "sstream") == "sstream") sb = std::make_unique<std::stringbuf>(doc, std::ios::in);
	else sb = std::make_unique<vh::SlowBuf>(doc, size_t(c.geti("step", 7)));
	std::istream is(sb.get());
	is.ignore(static_cast<std::streamsize>(c.geti("pre", 0)));      // consumed preamble: the text starts at a non-zero stream position
	U::CEncodedStreamReader<Ch, Chunk> reader(is, pol);
	std::basic_string<Ch> out;
	std::string seq;
	size_t calls = 0;
	bool endBefore = reader.IsEnd();
	for (;;) {
		auto r = reader.ReadChunk(out);
		++calls;
		seq.push_back(r == U::EncodedStreamReadResult::Success ? 'S' : r == U::EncodedStreamReadResult::DecodeError ? 'E' : 'F');
		if (r != U::EncodedStreamReadResult::Success) break;
		if (calls > doc.size() + 16) { seq.push_back('!'); break; }      // no progress
	}
	// compress the result sequence
	std::string cs; for (size_t i = 0; i < seq.size();) { size_t j = i; while (j < seq.size() && seq[j] == seq[i]) ++j; cs += seq[i]; if (j - i > 1) cs += std::to_string(j - i); i = j; }
	return vh::JObj().str("id", c.get("id")).str("type", EncName[int(reader.GetSourceUtfType())]).str("seq", cs).boolean("end_before", endBefore).boolean("end_after", reader.IsEnd())
		.str("text", vh::hex(bytesFromUnits(out))).done();
}
template <class Ch> static std::string encReadW(const vh::Case& c) {
	long chunk = c.geti("chunk", 256);
	if (chunk == 32) return encReadWith<Ch, 32>(c);
	if (chunk == 64) return encReadWith<Ch, 64>(c);
	return encReadWith<Ch, 256>(c);
}
static std::string opEncRead(const vh::Case& c) {
	long w = c.geti("width", 1);
	return w == 1 ? encReadW<char>(c) : w == 2 ? encReadW<char16_t>(c) : encReadW<char32_t>(c);
}
template <class Ch> static std::string encWriteW(const vh::Case& c) {
	std::basic_string<Ch> text = unitsFromBytes<Ch>(c.bytes("text"));
	auto pol = c.get("policy", "skip") == "skip" ? U::UtfEncodingErrorPolicy::Skip : U::UtfEncodingErrorPolicy::ThrowError;
	int enc = parseEnc(c.get("enc", "utf8"));
	std::ostringstream os;
	U::CEncodedStreamWriter writer(os, static_cast<U::UtfType>(enc), c.geti("bom", 0) != 0, pol);
	std::string codes;
	size_t pos = 0;
	std::string pieces = c.get("pieces", "");
	size_t q = 0;
	while (pos < text.size() || q < pieces.size()) {
		size_t n = text.size() - pos;
		if (q < pieces.size()) { size_t e = pieces.find(',', q); if (e == std::string::npos) e = pieces.size(); n = std::min(n, size_t(atol(pieces.substr(q, e - q).c_str()))); q = e + 1; }
		auto rc = writer.Write(std::basic_string_view<Ch>(text.data() + pos, n));
		codes.push_back(rc == U::UtfEncodingErrorCode::Success ? 'S' : 'E');
		pos += n;
		if (q >= pieces.size() && pos >= text.size()) break;
	}
	return vh::JObj().str("id", c.get("id")).str("codes", codes).str("bytes", vh::hex(os.str())).done();
}
static std::string opEncWrite(const vh::Case& c) {
	long w = c.geti("width", 1);
	return w == 1 ? encWriteW<char>(c) : w == 2 ? encWriteW<char16_t>(c) : encWriteW<char32_t>(c);
}
static std::string opDetect(const vh::Case& c) {
	std::string doc = c.bytes("doc");
	size_t off = 0;
	auto t = U::DetectEncoding(std::string_view(doc), off);
	// the stream may already stand behind a consumed preamble of `pre` bytes
	size_t pre = size_t(c.geti("pre", 0));
	std::string whole = std::string(pre, '#') + doc;
	std::istringstream is(whole);
	is.ignore(static_cast<std::streamsize>(pre));
	auto t2 = U::DetectEncoding(is, true);
	long long posSkip = static_cast<long long>(is.tellg()) - static_cast<long long>(pre);
	std::istringstream is2(whole);
	is2.ignore(static_cast<std::streamsize>(pre));
	auto t3 = U::DetectEncoding(is2, false);
	long long posKeep = static_cast<long long>(is2.tellg()) - static_cast<long long>(pre);
	return vh::JObj().str("id", c.get("id")).str("type", EncName[int(t)]).num("offset", (long long)off).str("stream_type", EncName[int(t2)]).num("stream_pos", posSkip)
		.str("stream_type_keep", EncName[int(t3)]).num("stream_pos_keep", posKeep).boolean("stream_good", is.good()).done();
}

int main() {
	std::string line;
	while (std::getline(std::cin, line)) {
		if (line.empty()) continue;
		auto c = vh::Case::parse(line);
		std::string op = c.get("op"), out;
		try {
			if (op == "transcode") out = opTranscode(c);
			else if (op == "sweep11") out = opSweep11(c);
			else if (op == "dumpref") out = opDumpRef(c);
			else if (op == "sweep12") out = opSweep12(c);
			else if (op == "refseg") out = opRefSeg(c);
			else if (op == "encread") out = opEncRead(c);
			else if (op == "encwrite") out = opEncWrite(c);
			else if (op == "detect") out = opDetect(c);
			else out = vh::JObj().str("id", c.get("id")).str("error", "unknown op").done();
		} catch (const std::exception& ex) {
			out = vh::JObj().str("id", c.get("id")).str("error", std::string("driver exception: ") + ex.what()).done();
		}
		std::cout << out << "\n" << std::flush;
	}
	return 0;
}
