// Typed model zoo for the archive drivers: value generation, canonical description and shape (type descriptor)
// are written here by hand and never go through BitSerializer.
#pragma once
#include "vh_common.h"

#include <array>
#include <atomic>
#include <bitset>
#include <chrono>
#include <deque>
#include <forward_list>
#include <list>
#include <map>
#include <memory>
#include <optional>
#include <queue>
#include <set>
#include <stack>
#include <tuple>
#include <unordered_map>
#include <unordered_set>
#include <valarray>

#include "bitserializer/bit_serializer.h"
#include "bitserializer/types/std/array.h"
#include "bitserializer/types/std/atomic.h"
#include "bitserializer/types/std/bitset.h"
#include "bitserializer/types/std/chrono.h"
#include "bitserializer/types/std/ctime.h"
#include "bitserializer/types/std/deque.h"
#include "bitserializer/types/std/forward_list.h"
#include "bitserializer/types/std/list.h"
#include "bitserializer/types/std/map.h"
#include "bitserializer/types/std/memory.h"
#include "bitserializer/types/std/optional.h"
#include "bitserializer/types/std/pair.h"
#include "bitserializer/types/std/queue.h"
#include "bitserializer/types/std/set.h"
#include "bitserializer/types/std/stack.h"
#include "bitserializer/types/std/tuple.h"
#include "bitserializer/types/std/unordered_map.h"
#include "bitserializer/types/std/unordered_set.h"
#include "bitserializer/types/std/valarray.h"
#include "bitserializer/types/std/vector.h"

namespace mz {

using namespace BitSerializer;
namespace ch = std::chrono;

enum : unsigned { A_JSON = 1, A_XML = 2, A_CSV = 4, A_MP = 8, A_ALL = 15, A_NOXML = 13, A_MPONLY = 8, A_TEXT = 7 };

// ---------------------------------------------------------------- context for generation / description
struct Ctx {
	unsigned arch = A_JSON;
	bool nonFinite = true;     // may generate NaN/Inf
	bool xmlText = false;      // restrict text to XML 1.0 Char, keys to XML Name
	bool xmlCr = false;        // allow U+000D in XML text (C08: end-of-line normalisation of conforming parsers)
	bool csvFlat = false;
	bool emptyEqualsNull = false;   // format cannot distinguish "" from null
	int maxSize = 4;           // typical container size bound
	bool bigSizes = false;     // occasionally 15..33 elements
	bool textNoEdgeSpace = false;   // avoid leading/trailing blanks and whitespace-only strings
	bool keyNul = false;            // directed case: map keys contain U+0000
	bool badUtf = false;            // fault scenario: 8-bit strings contain ill-formed UTF-8
	bool badEnum = false;           // fault scenario: enum values that are not registered
	bool ragged = false;            // fault scenario: CSV rows with different key sets
	long padLen = -1;               // exact length (ASCII) of the `pad` member of the Padded models: shifts everything behind it across the reader's buffer boundary
};

// ---------------------------------------------------------------- enum
enum class Color : int16_t { Red = 0, Green = 1, Blue = 10, Neg = -5, Big = 30000 };

// ---------------------------------------------------------------- helpers: code points -> strings of any width
template <class Ch> void appendCp(std::basic_string<Ch>& s, uint32_t cp) {
	if constexpr (sizeof(Ch) == 1) {
		if (cp < 0x80) s.push_back(Ch(cp));
		else if (cp < 0x800) { s.push_back(Ch(0xC0 | (cp >> 6))); s.push_back(Ch(0x80 | (cp & 0x3F))); }
		else if (cp < 0x10000) { s.push_back(Ch(0xE0 | (cp >> 12))); s.push_back(Ch(0x80 | ((cp >> 6) & 0x3F))); s.push_back(Ch(0x80 | (cp & 0x3F))); }
		else { s.push_back(Ch(0xF0 | (cp >> 18))); s.push_back(Ch(0x80 | ((cp >> 12) & 0x3F))); s.push_back(Ch(0x80 | ((cp >> 6) & 0x3F))); s.push_back(Ch(0x80 | (cp & 0x3F))); }
	} else if constexpr (sizeof(Ch) == 2) {
		if (cp >= 0x10000) { cp -= 0x10000; s.push_back(Ch(0xD800 + (cp >> 10))); s.push_back(Ch(0xDC00 + (cp & 0x3FF))); } else s.push_back(Ch(cp));
	} else s.push_back(Ch(cp));
}
// any-width string -> UTF-8 bytes (own converter; lone surrogates are emitted as 3-byte forms so that nothing is hidden)
template <class Ch> std::string toUtf8(const std::basic_string<Ch>& s) {
	if constexpr (sizeof(Ch) == 1) return std::string(s.begin(), s.end());
	else {
		std::string o;
		for (size_t i = 0; i < s.size(); ++i) {
			uint32_t cp = static_cast<uint32_t>(static_cast<std::make_unsigned_t<Ch>>(s[i]));
			if (sizeof(Ch) == 2 && cp >= 0xD800 && cp <= 0xDBFF && i + 1 < s.size()) {
				uint32_t lo = static_cast<uint32_t>(static_cast<std::make_unsigned_t<Ch>>(s[i + 1]));
				if (lo >= 0xDC00 && lo <= 0xDFFF) { cp = 0x10000 + ((cp - 0xD800) << 10) + (lo - 0xDC00); ++i; }
			}
			if (cp > 0x10FFFF) cp = 0xFFFD;
			appendCp(o, cp);
		}
		return o;
	}
}

inline bool isXmlChar(uint32_t c) { return c == 9 || c == 10 || c == 13 || (c >= 0x20 && c <= 0xD7FF) || (c >= 0xE000 && c <= 0xFFFD) || (c >= 0x10000 && c <= 0x10FFFF); }

inline uint32_t genCp(vh::Rng& r, const Ctx& c) {
	for (;;) {
		uint32_t cp;
		unsigned k = unsigned(r.below(100));
		static const uint32_t special[] = { 0x22, 0x5C, 0x2F, 0x27, 0x3C, 0x3E, 0x26, 0x2C, 0x3B, 0x7C, 0x09, 0x20, 0x0A, 0x0D, 0x00, 0x01, 0x1F, 0x7F, 0x80, 0x85, 0xA0, 0x7FF, 0x800, 0xFFFD, 0xFEFF, 0xFFFE, 0xFFFF, 0xD7FF, 0xE000, 0x2028, 0x2029, 0x10000, 0x10FFFF, 0x1F600, 0x5D, 0x3D, 0x23, 0x25 };
		if (k < 45) cp = uint32_t(r.range(0x21, 0x7E));
		else if (k < 65) cp = special[r.below(sizeof special / sizeof special[0])];
		else if (k < 75) cp = uint32_t(r.range(0x80, 0x7FF));
		else if (k < 90) cp = uint32_t(r.range(0x800, 0xFFFF));
		else cp = uint32_t(r.range(0x10000, 0x10FFFF));
		if (cp >= 0xD800 && cp <= 0xDFFF) continue;
		if (cp == 0 && !r.chance(1, 8)) continue;     // U+0000 is kept rare: a BOM-less UTF-8 stream with a zero byte is taken for UTF-16 (recorded finding) and would hide everything else
		if (c.xmlText && (!isXmlChar(cp) || (cp == 0x0D && !c.xmlCr))) continue;   // CR is normalised by every XML parser (XML 1.0 2.11)
		return cp;
	}
}
template <class Ch> void genString(vh::Rng& r, std::basic_string<Ch>& s, const Ctx& c, int maxLen = 12) {
	s.clear();
	unsigned k = unsigned(r.below(100));
	int n = k < 8 ? 0 : k < 70 ? int(r.range(1, 6)) : k < 95 ? int(r.range(1, maxLen)) : int(r.range(30, 40));
	if (c.bigSizes && r.chance(1, 40)) n = int(r.pick(std::vector<int>{ 31, 32, 33, 255, 256, 257, 300 }));
	for (int i = 0; i < n; ++i) appendCp(s, genCp(r, c));
	if constexpr (sizeof(Ch) == 1) { if (c.badUtf && r.chance(1, 2)) { s.insert(s.begin() + long(r.below(s.size() + 1)), Ch(0xFF)); s.push_back(Ch(0xE2)); } }
	if (c.textNoEdgeSpace && !s.empty()) {
		auto blank = [](Ch ch) { return ch == Ch(' ') || ch == Ch('\t') || ch == Ch('\n') || ch == Ch('\r'); };
		if (blank(s.front())) s.insert(s.begin(), Ch('x'));
		if (blank(s.back())) s.push_back(Ch('x'));
	}
}
template <class Ch> void genName(vh::Rng& r, std::basic_string<Ch>& s, const Ctx& c) {
	// map keys: XML requires a Name; elsewhere any non-empty string
	s.clear();
	if (c.xmlText || r.chance(1, 2)) {
		static const char* first = "abcdefghijklmnopqrstuvwxyzABCDEFGHIJKLMNOPQRSTUVWXYZ_";
		static const char* rest = "abcdefghijklmnopqrstuvwxyz0123456789_-.";
		s.push_back(Ch(first[r.below(53)]));
		int n = int(r.range(0, 8));
		for (int i = 0; i < n; ++i) s.push_back(Ch(rest[r.below(39)]));
		if (r.chance(1, 6)) appendCp(s, uint32_t(r.pick(std::vector<int>{ 0xE9, 0x416, 0x4E2D, 0x10400 })));
	} else {
		genString(r, s, c, 10);
		// U+0000 inside keys only in the directed cases (keynul=1)
		s.erase(std::remove(s.begin(), s.end(), Ch(0)), s.end());
		if (s.empty()) s.push_back(Ch('k'));
	}
	if (c.keyNul) { s.push_back(Ch(0)); s.push_back(Ch('z')); }
}

template <class T> T genInt(vh::Rng& r) {
	using L = std::numeric_limits<T>;
	unsigned k = unsigned(r.below(100));
	if (k < 20) { static const int d[] = { 0, 1, -1, 2, -2 }; long long v = d[r.below(5)]; if (!std::is_signed_v<T> && v < 0) v = -v; return T(v); }
	if (k < 40) { int d = int(r.range(0, 2)); return r.chance(1, 2) ? T(L::max() - d) : T(L::min() + d); }
	if (k < 60) { unsigned bits = unsigned(r.range(1, sizeof(T) * 8 - 1)); long long p = 1LL << (bits > 62 ? 62 : bits); long long v = p + r.range(-1, 1); if (std::is_signed_v<T> && r.chance(1, 2)) v = -v; return T(v); }
	uint64_t x = r.next();
	if (r.chance(1, 2)) x >>= r.below(64);
	return T(x);
}
template <class T> T genFloat(vh::Rng& r, const Ctx& c) {
	using L = std::numeric_limits<T>;
	unsigned k = unsigned(r.below(100));
	if (k < 10 && c.nonFinite) { T s[] = { L::infinity(), -L::infinity(), L::quiet_NaN(), -L::quiet_NaN() }; return s[r.below(4)]; }
	if (k < 30) { T s[] = { T(0), T(-0.0), T(1), T(-1), T(0.5), T(0.1), L::min(), L::max(), L::lowest(), L::denorm_min(), L::epsilon(), T(1e10), T(123456.789), T(1) / T(3), T(16777217), T(1e-7) }; return s[r.below(16)]; }
	if (k < 50) return T(static_cast<long long>(r.next() >> r.below(64))) / T(std::pow(10.0, double(r.below(8))));
	for (;;) {
		T v;
		if constexpr (sizeof(T) == 4) { uint32_t b = uint32_t(r.next()); memcpy(&v, &b, 4); } else { uint64_t b = r.next(); memcpy(&v, &b, 8); }
		if (std::isfinite(v) || c.nonFinite) return v;
	}
}
// chrono counts: mostly values whose number of seconds fits the 64-bit binary timestamp, sometimes the full range of the representation
template <class R, class P> R genChronoCount(vh::Rng& r) {
	R v = genInt<R>(r);
	if constexpr (std::ratio_greater_v<P, std::ratio<1>>) {
		if (!r.chance(1, 10)) { const long long lim = (1LL << 62) / (P::num / P::den); if (static_cast<long long>(v) > lim || static_cast<long long>(v) < -lim) v = R(static_cast<long long>(v) % lim); }
	}
	return v;
}
inline int genSize(vh::Rng& r, const Ctx& c) {
	unsigned k = unsigned(r.below(100));
	if (k < 15) return 0;
	if (c.bigSizes && k > 96) return int(r.pick(std::vector<int>{ 15, 16, 17, 31, 32, 33 }));
	return int(r.range(1, c.maxSize));
}

// ---------------------------------------------------------------- type traits for dispatch
template <class T> struct is_std_string : std::false_type {};
template <class C, class Tr, class A> struct is_std_string<std::basic_string<C, Tr, A>> : std::true_type {};
template <class T, class = void> struct has_visit : std::false_type {};
struct ProbeV { template <class... A> void operator()(A&&...) {} template <class... A> void enumbin(A&&...) {} template <class... A> void ctime(A&&...) {} template <class B, class D> void base(D&) {} };
template <class T> struct has_visit<T, std::void_t<decltype(std::declval<T&>().visit(std::declval<ProbeV&>()))>> : std::true_type {};
template <class T> struct is_tp : std::false_type {};
template <class C, class D> struct is_tp<ch::time_point<C, D>> : std::true_type {};
template <class T> struct is_dur : std::false_type {};
template <class R, class P> struct is_dur<ch::duration<R, P>> : std::true_type {};

template <class P> const char* unitName() {
	if constexpr (std::is_same_v<P, std::nano>) return "ns"; else if constexpr (std::is_same_v<P, std::micro>) return "us"; else if constexpr (std::is_same_v<P, std::milli>) return "ms";
	else if constexpr (std::is_same_v<P, std::ratio<1>>) return "s"; else if constexpr (std::is_same_v<P, std::ratio<60>>) return "min"; else if constexpr (std::is_same_v<P, std::ratio<3600>>) return "h"; else return "days";
}

// forward declarations of the generic trio
template <class T> void gen(vh::Rng& r, T& v, const Ctx& c);
template <class T> std::string desc(const T& v, const Ctx& c);
template <class T> std::string shape(const Ctx& c);

// ---------------------------------------------------------------- visitors for classes with visit()
struct GenV {
	vh::Rng& r; const Ctx& c;
	template <class F> void operator()(const char*, F& f, unsigned mask = A_ALL) { if (mask & c.arch) gen(r, f, c); }
	template <class E> void enumbin(const char*, E& e, unsigned mask = A_ALL) { if (mask & c.arch) gen(r, e, c); }
	void ctime(const char*, time_t& t, unsigned mask = A_ALL) { if (mask & c.arch) t = time_t(r.range(-9000000000LL, 9000000000LL)); }
	template <class B, class D> void base(D& d) { static_cast<B&>(d).visit(*this); }
};
struct DescV {
	std::string out; const Ctx& c; bool first = true;
	void put(const char* n, const std::string& v) { if (!first) out += ","; first = false; out += vh::jstr(n); out += ":"; out += v; }
	template <class F> void operator()(const char* n, const F& f, unsigned mask = A_ALL) { if (mask & c.arch) put(n, desc(f, c)); }
	template <class E> void enumbin(const char* n, const E& e, unsigned mask = A_ALL) { if (mask & c.arch) put(n, std::to_string(static_cast<long long>(static_cast<std::underlying_type_t<E>>(e)))); }
	void ctime(const char* n, const time_t& t, unsigned mask = A_ALL) { if (mask & c.arch) put(n, "{\"tp\":" + std::to_string(static_cast<long long>(t)) + "}"); }
	template <class B, class D> void base(D& d) { const_cast<B&>(static_cast<const B&>(d)).visit(*this); }
};
struct ShapeV {
	std::string out; const Ctx& c; bool first = true;
	void put(const char* n, const std::string& v) { if (!first) out += ","; first = false; out += "[" + vh::jstr(n) + "," + v + "]"; }
	template <class F> void operator()(const char* n, F&, unsigned mask = A_ALL) { if (mask & c.arch) put(n, shape<F>(c)); }
	template <class E> void enumbin(const char* n, E&, unsigned mask = A_ALL) { if (mask & c.arch) put(n, std::string("{\"k\":\"int\",\"bits\":") + std::to_string(sizeof(E) * 8) + ",\"signed\":" + (std::is_signed_v<std::underlying_type_t<E>> ? "true" : "false") + ",\"enumbin\":true}"); }
	void ctime(const char* n, time_t&, unsigned mask = A_ALL) { if (mask & c.arch) put(n, "{\"k\":\"tp\",\"unit\":\"s\",\"bits\":64,\"signed\":true,\"ctime\":true}"); }
	template <class B, class D> void base(D& d) { static_cast<B&>(d).visit(*this); }
};
template <class A> constexpr unsigned archFlag() {
	return A::archive_type == ArchiveType::Json ? A_JSON : A::archive_type == ArchiveType::Xml ? A_XML : A::archive_type == ArchiveType::Csv ? A_CSV : A_MP;
}
template <class A> struct SerV {
	A& a;
	// JSON / XML take C-string keys, MsgPack / CSV take string_view keys
	static constexpr bool cstrKeys = archFlag<A>() == A_JSON || archFlag<A>() == A_XML;
	template <class F> void put(const char* n, F&& f) {
		if constexpr (cstrKeys) a << KeyValue(n, std::forward<F>(f));
		else if constexpr (archFlag<A>() == A_CSV) a << KeyValue(std::string(n), std::forward<F>(f));   // (string_view keys do not compile with CsvArchive)
		else a << KeyValue(std::string_view(n), std::forward<F>(f));
	}
	template <class F> void operator()(const char* n, F& f, unsigned mask = A_ALL) { if (mask & archFlag<A>()) put(n, f); }
	template <class E> void enumbin(const char* n, E& e, unsigned mask = A_ALL) { if (mask & archFlag<A>()) put(n, EnumAsBin(e)); }
	void ctime(const char* n, time_t& t, unsigned mask = A_ALL) { if (mask & archFlag<A>()) put(n, CTimeRef(t)); }
	template <class B, class D> void base(D& d) { a << BaseObject<B>(d); }
};
#define MZ_SERIALIZE template <class A> void Serialize(A& archive) { mz::SerV<A> v{ archive }; visit(v); }

// ---------------------------------------------------------------- gen
template <class T> void gen(vh::Rng& r, T& v, const Ctx& c) {
	if constexpr (std::is_same_v<T, bool>) v = r.chance(1, 2);
	else if constexpr (std::is_same_v<T, std::byte>) v = std::byte(r.below(256));
	else if constexpr (std::is_enum_v<T>) { static const Color all[] = { Color::Red, Color::Green, Color::Blue, Color::Neg, Color::Big }; v = all[r.below(5)]; if (c.badEnum && r.chance(1, 3)) v = static_cast<T>(77); }
	else if constexpr (std::is_integral_v<T>) v = genInt<T>(r);
	else if constexpr (std::is_floating_point_v<T>) v = genFloat<T>(r, c);
	else if constexpr (is_std_string<T>::value) genString(r, v, c);
	else if constexpr (has_visit<T>::value) { GenV g{ r, c }; v.visit(g); }
	else if constexpr (is_tp<T>::value) { using R = typename T::duration::rep; v = T(typename T::duration(genChronoCount<R, typename T::duration::period>(r))); }
	else if constexpr (is_dur<T>::value) { v = T(genChronoCount<typename T::rep, typename T::period>(r)); }
	else static_assert(sizeof(T) == 0, "gen: unsupported type");
}
template <class T> void gen(vh::Rng& r, std::atomic<T>& v, const Ctx& c) { T t; gen(r, t, c); v.store(t); }
// XML cannot distinguish a null object/container from an empty one (both are an element without children)
template <class T> constexpr bool nullIsEmptyInXml = !(std::is_arithmetic_v<T> || std::is_enum_v<T> || is_std_string<T>::value || is_tp<T>::value || is_dur<T>::value);
template <class T> void gen(vh::Rng& r, std::optional<T>& v, const Ctx& c) {
	if (r.chance(1, 4) && !(c.xmlText && nullIsEmptyInXml<T>)) { v.reset(); return; }
	v.emplace(); gen(r, *v, c);
	if constexpr (is_std_string<T>::value) { if (c.emptyEqualsNull && v->empty()) v->push_back(typename T::value_type('x')); }
}
template <class T> void gen(vh::Rng& r, std::unique_ptr<T>& v, const Ctx& c) {
	if (r.chance(1, 4) && !(c.xmlText && nullIsEmptyInXml<T>)) { v.reset(); return; }
	v = std::make_unique<T>(); gen(r, *v, c);
	if constexpr (is_std_string<T>::value) { if (c.emptyEqualsNull && v->empty()) v->push_back(typename T::value_type('x')); }
}
template <class T> void gen(vh::Rng& r, std::shared_ptr<T>& v, const Ctx& c) {
	if (r.chance(1, 4) && !(c.xmlText && nullIsEmptyInXml<T>)) { v.reset(); return; }
	v = std::make_shared<T>(); gen(r, *v, c);
	if constexpr (is_std_string<T>::value) { if (c.emptyEqualsNull && v->empty()) v->push_back(typename T::value_type('x')); }
}
template <class A, class B> void gen(vh::Rng& r, std::pair<A, B>& v, const Ctx& c) { gen(r, const_cast<std::remove_const_t<A>&>(v.first), c); gen(r, v.second, c); }
template <class... A> void gen(vh::Rng& r, std::tuple<A...>& v, const Ctx& c) { std::apply([&](auto&... e) { (gen(r, e, c), ...); }, v); }
template <class T, size_t N> void gen(vh::Rng& r, T (&v)[N], const Ctx& c) { for (auto& e : v) gen(r, e, c); }
template <class T, size_t N> void gen(vh::Rng& r, std::array<T, N>& v, const Ctx& c) { for (auto& e : v) gen(r, e, c); }
template <size_t N> void gen(vh::Rng& r, std::bitset<N>& v, const Ctx&) { for (size_t i = 0; i < N; ++i) v.set(i, r.chance(1, 2)); }
template <class T, class A> void gen(vh::Rng& r, std::vector<T, A>& v, const Ctx& c) {
	int n = genSize(r, c); v.clear();
	for (int i = 0; i < n; ++i) { if constexpr (std::is_same_v<T, bool>) v.push_back(r.chance(1, 2)); else { v.emplace_back(); gen(r, v.back(), c); } }
}
template <class T, class A> void gen(vh::Rng& r, std::deque<T, A>& v, const Ctx& c) { int n = genSize(r, c); v.clear(); for (int i = 0; i < n; ++i) { v.emplace_back(); gen(r, v.back(), c); } }
template <class T, class A> void gen(vh::Rng& r, std::list<T, A>& v, const Ctx& c) { int n = genSize(r, c); v.clear(); for (int i = 0; i < n; ++i) { v.emplace_back(); gen(r, v.back(), c); } }
template <class T, class A> void gen(vh::Rng& r, std::forward_list<T, A>& v, const Ctx& c) { int n = genSize(r, c); v.clear(); for (int i = 0; i < n; ++i) { v.emplace_front(); gen(r, v.front(), c); } }
template <class T> void gen(vh::Rng& r, std::valarray<T>& v, const Ctx& c) { int n = genSize(r, c); v.resize(size_t(n)); for (int i = 0; i < n; ++i) gen(r, v[size_t(i)], c); }
template <class T, class C2> void gen(vh::Rng& r, std::queue<T, C2>& v, const Ctx& c) { v = {}; int n = genSize(r, c); for (int i = 0; i < n; ++i) { T t; gen(r, t, c); v.push(t); } }
template <class T, class C2> void gen(vh::Rng& r, std::stack<T, C2>& v, const Ctx& c) { v = {}; int n = genSize(r, c); for (int i = 0; i < n; ++i) { T t; gen(r, t, c); v.push(t); } }
template <class T, class C2, class P> void gen(vh::Rng& r, std::priority_queue<T, C2, P>& v, const Ctx& c) { v = {}; int n = genSize(r, c); for (int i = 0; i < n; ++i) { T t; gen(r, t, c); v.push(t); } }
template <class S> void genSetLike(vh::Rng& r, S& v, const Ctx& c) { v.clear(); int n = genSize(r, c); for (int i = 0; i < n; ++i) { typename S::value_type t; gen(r, t, c); v.insert(std::move(t)); } }
template <class T, class C2, class A> void gen(vh::Rng& r, std::set<T, C2, A>& v, const Ctx& c) { genSetLike(r, v, c); }
template <class T, class C2, class A> void gen(vh::Rng& r, std::multiset<T, C2, A>& v, const Ctx& c) { genSetLike(r, v, c); }
template <class T, class H, class E, class A> void gen(vh::Rng& r, std::unordered_set<T, H, E, A>& v, const Ctx& c) { genSetLike(r, v, c); }
template <class T, class H, class E, class A> void gen(vh::Rng& r, std::unordered_multiset<T, H, E, A>& v, const Ctx& c) { genSetLike(r, v, c); }
template <class K> void genKey(vh::Rng& r, K& k, const Ctx& c) {
	if constexpr (is_std_string<K>::value) genName(r, k, c);
	else if constexpr (std::is_floating_point_v<K>) { Ctx c2 = c; c2.nonFinite = false; k = genFloat<K>(r, c2); if (k == 0) k = 0; /* -0.0 == 0.0 as key */ }
	else gen(r, k, c);
}
template <class M> void genMapLike(vh::Rng& r, M& v, const Ctx& c, bool multi) {
	v.clear(); int n = genSize(r, c);
	for (int i = 0; i < n; ++i) {
		typename M::key_type k; genKey(r, k, c);
		typename M::mapped_type m; gen(r, m, c);
		if (multi && !v.empty() && r.chance(1, 3) && (c.arch & A_MP)) { k = v.begin()->first; }   // duplicate keys only where the format allows them
		v.emplace(std::move(k), std::move(m));
	}
}
template <class K, class V, class C2, class A> void gen(vh::Rng& r, std::map<K, V, C2, A>& v, const Ctx& c) { genMapLike(r, v, c, false); }
// CSV table given as rows of maps: one common, non-empty key set (the format has a single header)
inline void gen(vh::Rng& r, std::vector<std::map<std::string, std::string>>& v, const Ctx& c) {
	v.clear();
	std::vector<std::string> keys;
	int nk = int(r.range(1, 5));
	// (the first header begins with an ASCII letter: encoding of a BOM-less stream is detectable only when the text begins with ASCII)
	for (int i = 0; i < nk; ++i) { std::string k; genName(r, k, c); k += std::to_string(i); k.insert(k.begin(), char(0x61 + i)); keys.push_back(k); }
	int n = genSize(r, c);
	for (int i = 0; i < n; ++i) { std::map<std::string, std::string> row; for (auto& k : keys) genString(r, row[k], c); if (c.ragged && i > 0 && r.chance(1, 2)) row["extra"] = "x"; v.push_back(std::move(row)); }
}
template <class K, class V, class C2, class A> void gen(vh::Rng& r, std::multimap<K, V, C2, A>& v, const Ctx& c) { genMapLike(r, v, c, true); }
template <class K, class V, class H, class E, class A> void gen(vh::Rng& r, std::unordered_map<K, V, H, E, A>& v, const Ctx& c) { genMapLike(r, v, c, false); }
template <class K, class V, class H, class E, class A> void gen(vh::Rng& r, std::unordered_multimap<K, V, H, E, A>& v, const Ctx& c) { genMapLike(r, v, c, true); }

// ---------------------------------------------------------------- desc (canonical JSON, ASCII only)
template <class F> std::string descFloat(F v) {
	if (std::isnan(v)) return sizeof(F) == 4 ? "{\"f32\":\"nan\"}" : "{\"f64\":\"nan\"}";
	char b[48];
	if constexpr (sizeof(F) == 4) { uint32_t u; memcpy(&u, &v, 4); snprintf(b, sizeof b, "{\"f32\":\"%08x\"}", u); }
	else { uint64_t u; memcpy(&u, &v, 8); snprintf(b, sizeof b, "{\"f64\":\"%016llx\"}", static_cast<unsigned long long>(u)); }
	return b;
}
template <class It> std::string descSeq(It b, It e, const Ctx& c, bool sorted = false) {
	std::vector<std::string> items;
	for (; b != e; ++b) items.push_back(desc(*b, c));
	if (sorted) std::sort(items.begin(), items.end());
	std::string o = "[";
	for (size_t i = 0; i < items.size(); ++i) { if (i) o += ","; o += items[i]; }
	return o + "]";
}
template <class M> std::string descMap(const M& m, const Ctx& c, bool sorted) {
	std::vector<std::string> items;
	for (auto& kv : m) items.push_back("[" + desc(kv.first, c) + "," + desc(kv.second, c) + "]");
	if (sorted) std::sort(items.begin(), items.end());
	std::string o = "{\"m\":[";
	for (size_t i = 0; i < items.size(); ++i) { if (i) o += ","; o += items[i]; }
	return o + "]}";
}
template <class T> std::string desc(const T& v, const Ctx& c) {
	if constexpr (std::is_same_v<T, bool>) return v ? "true" : "false";
	else if constexpr (std::is_same_v<T, std::byte>) return std::to_string(static_cast<unsigned>(v));
	else if constexpr (std::is_enum_v<T>) return "{\"e\":" + std::to_string(static_cast<long long>(v)) + "}";
	else if constexpr (std::is_integral_v<T>) { if constexpr (std::is_signed_v<T>) return std::to_string(static_cast<long long>(v)); else return std::to_string(static_cast<unsigned long long>(v)); }
	else if constexpr (std::is_floating_point_v<T>) return descFloat(v);
	else if constexpr (is_std_string<T>::value) return "{\"s\":\"" + vh::hex(toUtf8(v)) + "\"}";
	else if constexpr (has_visit<T>::value) { DescV d{ "", c }; const_cast<T&>(v).visit(d); return "{\"o\":{" + d.out + "}}"; }
	else if constexpr (is_tp<T>::value) return "{\"tp\":" + std::to_string(static_cast<long long>(v.time_since_epoch().count())) + "}";
	else if constexpr (is_dur<T>::value) return "{\"dur\":" + std::to_string(static_cast<long long>(v.count())) + "}";
	else static_assert(sizeof(T) == 0, "desc: unsupported type");
}
template <class T> std::string desc(const std::atomic<T>& v, const Ctx& c) { return desc(v.load(), c); }
template <class T> std::string desc(const std::optional<T>& v, const Ctx& c) { return v ? desc(*v, c) : "null"; }
template <class T> std::string desc(const std::unique_ptr<T>& v, const Ctx& c) { return v ? desc(*v, c) : "null"; }
template <class T> std::string desc(const std::shared_ptr<T>& v, const Ctx& c) { return v ? desc(*v, c) : "null"; }
template <class A, class B> std::string desc(const std::pair<A, B>& v, const Ctx& c) { return "{\"o\":{\"key\":" + desc(v.first, c) + ",\"value\":" + desc(v.second, c) + "}}"; }
template <class... A> std::string desc(const std::tuple<A...>& v, const Ctx& c) { std::string o = "["; bool f = true; std::apply([&](const auto&... e) { ((o += (f ? "" : ","), f = false, o += desc(e, c)), ...); }, v); return o + "]"; }
template <class T, size_t N> std::string desc(const T (&v)[N], const Ctx& c) { return descSeq(std::begin(v), std::end(v), c); }
template <class T, size_t N> std::string desc(const std::array<T, N>& v, const Ctx& c) { return descSeq(v.begin(), v.end(), c); }
template <size_t N> std::string desc(const std::bitset<N>& v, const Ctx&) { std::string o = "["; for (size_t i = 0; i < N; ++i) { if (i) o += ","; o += v.test(i) ? "true" : "false"; } return o + "]"; }
template <class T, class A> std::string desc(const std::vector<T, A>& v, const Ctx& c) {
	if constexpr (std::is_same_v<T, bool>) { std::string o = "["; for (size_t i = 0; i < v.size(); ++i) { if (i) o += ","; o += v[i] ? "true" : "false"; } return o + "]"; }
	else return descSeq(v.begin(), v.end(), c);
}
template <class T, class A> std::string desc(const std::deque<T, A>& v, const Ctx& c) { return descSeq(v.begin(), v.end(), c); }
template <class T, class A> std::string desc(const std::list<T, A>& v, const Ctx& c) { return descSeq(v.begin(), v.end(), c); }
template <class T, class A> std::string desc(const std::forward_list<T, A>& v, const Ctx& c) { return descSeq(v.begin(), v.end(), c); }
template <class T> std::string desc(const std::valarray<T>& v, const Ctx& c) { return descSeq(std::begin(v), std::end(v), c); }
template <class T, class C2> std::string desc(const std::queue<T, C2>& v, const Ctx& c) { auto& b = Detail::GetBaseContainer(v); return descSeq(b.begin(), b.end(), c); }
template <class T, class C2> std::string desc(const std::stack<T, C2>& v, const Ctx& c) { auto& b = Detail::GetBaseContainer(v); return descSeq(b.begin(), b.end(), c); }
template <class T, class C2, class P> std::string desc(const std::priority_queue<T, C2, P>& v, const Ctx& c) { auto copy = v; std::vector<T> items; while (!copy.empty()) { items.push_back(copy.top()); copy.pop(); } return descSeq(items.begin(), items.end(), c); }
template <class T, class C2, class A> std::string desc(const std::set<T, C2, A>& v, const Ctx& c) { return descSeq(v.begin(), v.end(), c); }
template <class T, class C2, class A> std::string desc(const std::multiset<T, C2, A>& v, const Ctx& c) { return descSeq(v.begin(), v.end(), c); }
template <class T, class H, class E, class A> std::string desc(const std::unordered_set<T, H, E, A>& v, const Ctx& c) { return descSeq(v.begin(), v.end(), c, true); }
template <class T, class H, class E, class A> std::string desc(const std::unordered_multiset<T, H, E, A>& v, const Ctx& c) { return descSeq(v.begin(), v.end(), c, true); }
template <class K, class V, class C2, class A> std::string desc(const std::map<K, V, C2, A>& v, const Ctx& c) { return descMap(v, c, false); }
template <class K, class V, class C2, class A> std::string desc(const std::multimap<K, V, C2, A>& v, const Ctx& c) { return descMap(v, c, true); }
template <class K, class V, class H, class E, class A> std::string desc(const std::unordered_map<K, V, H, E, A>& v, const Ctx& c) { return descMap(v, c, true); }
template <class K, class V, class H, class E, class A> std::string desc(const std::unordered_multimap<K, V, H, E, A>& v, const Ctx& c) { return descMap(v, c, true); }

// ---------------------------------------------------------------- shape
template <class T> struct ShapeOf {
	static std::string get(const Ctx& c) {
		if constexpr (std::is_same_v<T, bool>) return "{\"k\":\"bool\"}";
		else if constexpr (std::is_same_v<T, std::byte>) return "{\"k\":\"int\",\"bits\":8,\"signed\":false}";
		else if constexpr (std::is_enum_v<T>) return "{\"k\":\"enum\",\"names\":{\"Red\":0,\"Green\":1,\"Blue\":10,\"Neg\":-5,\"Big\":30000}}";
		else if constexpr (std::is_integral_v<T>) return std::string("{\"k\":\"int\",\"bits\":") + std::to_string(sizeof(T) * 8) + ",\"signed\":" + (std::is_signed_v<T> ? "true" : "false") + "}";
		else if constexpr (std::is_floating_point_v<T>) return sizeof(T) == 4 ? "{\"k\":\"f32\"}" : "{\"k\":\"f64\"}";
		else if constexpr (is_std_string<T>::value) return std::string("{\"k\":\"str\",\"w\":") + std::to_string(sizeof(typename T::value_type) * 8) + "}";
		else if constexpr (has_visit<T>::value) { ShapeV s{ "", c }; T tmp{}; tmp.visit(s); return "{\"k\":\"obj\",\"f\":[" + s.out + "]}"; }
		else if constexpr (is_tp<T>::value) return std::string("{\"k\":\"tp\",\"unit\":\"") + unitName<typename T::duration::period>() + "\",\"bits\":" + std::to_string(sizeof(typename T::duration::rep) * 8) + ",\"signed\":true}";
		else if constexpr (is_dur<T>::value) return std::string("{\"k\":\"dur\",\"unit\":\"") + unitName<typename T::period>() + "\",\"bits\":" + std::to_string(sizeof(typename T::rep) * 8) + ",\"signed\":true}";
		else static_assert(sizeof(T) == 0, "shape: unsupported type");
	}
};
template <class T> std::string shape(const Ctx& c) { return ShapeOf<T>::get(c); }
template <class E> std::string seqShape(const Ctx& c, const char* kind, long fixed = -1, bool unordered = false) {
	bool bin = std::is_same_v<E, char> || std::is_same_v<E, signed char> || std::is_same_v<E, unsigned char>;
	return std::string("{\"k\":\"seq\",\"c\":\"") + kind + "\",\"e\":" + shape<E>(c) + (fixed >= 0 ? ",\"fixed\":" + std::to_string(fixed) : "") + (unordered ? ",\"unordered\":true" : "") + (bin ? ",\"bin\":true" : "") + "}";
}
template <class T> struct ShapeOf<std::atomic<T>> { static std::string get(const Ctx& c) { return "{\"k\":\"atomic\",\"e\":" + shape<T>(c) + "}"; } };
template <class T> struct ShapeOf<std::optional<T>> { static std::string get(const Ctx& c) { return "{\"k\":\"opt\",\"e\":" + shape<T>(c) + "}"; } };
template <class T> struct ShapeOf<std::unique_ptr<T>> { static std::string get(const Ctx& c) { return "{\"k\":\"opt\",\"e\":" + shape<T>(c) + "}"; } };
template <class T> struct ShapeOf<std::shared_ptr<T>> { static std::string get(const Ctx& c) { return "{\"k\":\"opt\",\"e\":" + shape<T>(c) + "}"; } };
template <class A, class B> struct ShapeOf<std::pair<A, B>> { static std::string get(const Ctx& c) { return "{\"k\":\"obj\",\"f\":[[\"key\"," + shape<std::remove_const_t<A>>(c) + "],[\"value\"," + shape<B>(c) + "]]}"; } };
template <class... A> struct ShapeOf<std::tuple<A...>> { static std::string get(const Ctx& c) { std::string o = "{\"k\":\"tuple\",\"e\":["; bool f = true; ((o += (f ? "" : ","), f = false, o += shape<A>(c)), ...); return o + "]}"; } };
template <class T, size_t N> struct ShapeOf<T[N]> { static std::string get(const Ctx& c) { return seqShape<T>(c, "carray", long(N)); } };
template <class T, size_t N> struct ShapeOf<std::array<T, N>> { static std::string get(const Ctx& c) { return seqShape<T>(c, "array", long(N)); } };
template <size_t N> struct ShapeOf<std::bitset<N>> { static std::string get(const Ctx& c) { return seqShape<bool>(c, "bitset", long(N)); } };
template <class T, class A> struct ShapeOf<std::vector<T, A>> { static std::string get(const Ctx& c) { return seqShape<T>(c, "vector"); } };
template <class T, class A> struct ShapeOf<std::deque<T, A>> { static std::string get(const Ctx& c) { return seqShape<T>(c, "deque"); } };
template <class T, class A> struct ShapeOf<std::list<T, A>> { static std::string get(const Ctx& c) { return seqShape<T>(c, "list"); } };
template <class T, class A> struct ShapeOf<std::forward_list<T, A>> { static std::string get(const Ctx& c) { return seqShape<T>(c, "forward_list"); } };
template <class T> struct ShapeOf<std::valarray<T>> { static std::string get(const Ctx& c) { return seqShape<T>(c, "valarray"); } };
template <class T, class C2> struct ShapeOf<std::queue<T, C2>> { static std::string get(const Ctx& c) { return seqShape<T>(c, "queue"); } };
template <class T, class C2> struct ShapeOf<std::stack<T, C2>> { static std::string get(const Ctx& c) { return seqShape<T>(c, "stack"); } };
template <class T, class C2, class P> struct ShapeOf<std::priority_queue<T, C2, P>> { static std::string get(const Ctx& c) { return seqShape<T>(c, "priority_queue", -1, true); } };
template <class T, class C2, class A> struct ShapeOf<std::set<T, C2, A>> { static std::string get(const Ctx& c) { return seqShape<T>(c, "set", -1, true); } };
template <class T, class C2, class A> struct ShapeOf<std::multiset<T, C2, A>> { static std::string get(const Ctx& c) { return seqShape<T>(c, "multiset", -1, true); } };
template <class T, class H, class E, class A> struct ShapeOf<std::unordered_set<T, H, E, A>> { static std::string get(const Ctx& c) { return seqShape<T>(c, "unordered_set", -1, true); } };
template <class T, class H, class E, class A> struct ShapeOf<std::unordered_multiset<T, H, E, A>> { static std::string get(const Ctx& c) { return seqShape<T>(c, "unordered_multiset", -1, true); } };
template <class K, class V> std::string mapShape(const Ctx& c, const char* kind, bool multi) { return std::string("{\"k\":\"") + (multi ? "multimap" : "map") + "\",\"c\":\"" + kind + "\",\"key\":" + shape<K>(c) + ",\"val\":" + shape<V>(c) + "}"; }
template <class K, class V, class C2, class A> struct ShapeOf<std::map<K, V, C2, A>> { static std::string get(const Ctx& c) { return mapShape<K, V>(c, "map", false); } };
template <class K, class V, class C2, class A> struct ShapeOf<std::multimap<K, V, C2, A>> { static std::string get(const Ctx& c) { return mapShape<K, V>(c, "multimap", true); } };
template <class K, class V, class H, class E, class A> struct ShapeOf<std::unordered_map<K, V, H, E, A>> { static std::string get(const Ctx& c) { return mapShape<K, V>(c, "unordered_map", false); } };
template <class K, class V, class H, class E, class A> struct ShapeOf<std::unordered_multimap<K, V, H, E, A>> { static std::string get(const Ctx& c) { return mapShape<K, V>(c, "unordered_multimap", true); } };

// ---------------------------------------------------------------- model classes
struct Inner {
	int32_t id = 0; std::string name; double w = 0;
	template <class V> void visit(V& v) { v("id", id); v("name", name); v("w", w); }
	MZ_SERIALIZE
};
struct Base {
	uint16_t bx = 0; std::u16string bs;
	template <class V> void visit(V& v) { v("bx", bx); v("bs", bs); }
	MZ_SERIALIZE
};
struct Derived : Base {
	int64_t dv = 0; Inner in; std::vector<Inner> ins;
	template <class V> void visit(V& v) { v.template base<Base>(*this); v("dv", dv); v("in", in); v("ins", ins); }
	MZ_SERIALIZE
};
// class serialized through the external SerializeObject()
struct Ext { int32_t x = 0; std::string y; template <class V> void visit(V& v) { v("x", x); v("y", y); } };
template <class A> void SerializeObject(A& archive, Ext& e) { SerV<A> v{ archive }; e.visit(v); }

using tp_ns = ch::time_point<ch::system_clock, ch::nanoseconds>;
using tp_us = ch::time_point<ch::system_clock, ch::microseconds>;
using tp_ms = ch::time_point<ch::system_clock, ch::milliseconds>;
using tp_s = ch::time_point<ch::system_clock, ch::seconds>;
using tp_h = ch::time_point<ch::system_clock, ch::hours>;

struct Scalars {
	bool b = false; char c = 0; int8_t i8 = 0; uint8_t u8 = 0; int16_t i16 = 0; uint16_t u16 = 0; int32_t i32 = 0; uint32_t u32 = 0; int64_t i64 = 0; uint64_t u64 = 0;
	float f32 = 0; double f64 = 0; std::string s; std::wstring ws; std::u16string s16; std::u32string s32; Color e = Color::Red; Color ebin = Color::Red; std::byte by{};
	template <class V> void visit(V& v) {
		v("b", b); v("c", c); v("i8", i8); v("u8", u8); v("i16", i16); v("u16", u16); v("i32", i32); v("u32", u32); v("i64", i64); v("u64", u64);
		v("f32", f32); v("f64", f64); v("s", s); v("ws", ws); v("s16", s16); v("s32", s32); v("e", e); v.enumbin("ebin", ebin); v("by", by);
	}
	MZ_SERIALIZE
};
struct Chrono {
	tp_ns tns; tp_us tus; tp_ms tms; tp_s ts; tp_h th; ch::nanoseconds dns{}; ch::milliseconds dms{}; ch::seconds ds{}; ch::minutes dmin{}; ch::hours dh{}; time_t tt = 0;
	template <class V> void visit(V& v) { v("tns", tns); v("tus", tus); v("tms", tms); v("ts", ts); v("th", th); v("dns", dns); v("dms", dms); v("ds", ds); v("dmin", dmin); v("dh", dh); v.ctime("tt", tt); }
	MZ_SERIALIZE
};
struct Containers {
	int32_t carr[3] = { 0, 0, 0 }; std::array<int16_t, 2> arr{}; std::vector<int32_t> vi; std::vector<std::string> vs; std::vector<bool> vb; std::vector<double> vd; std::vector<Inner> vo; std::vector<std::vector<int32_t>> vv;
	std::deque<int64_t> dq; std::list<std::wstring> li; std::forward_list<uint16_t> fl; std::valarray<float> va; std::queue<int32_t> q; std::stack<int32_t> st; std::priority_queue<int32_t> pq;
	std::set<int32_t> si; std::multiset<std::string> ms; std::unordered_set<uint32_t> us; std::unordered_multiset<int16_t> ums; std::bitset<10> bits;
	template <class V> void visit(V& v) {
		v("carr", carr); v("arr", arr); v("vi", vi); v("vs", vs); v("vb", vb); v("vd", vd); v("vo", vo); v("vv", vv); v("dq", dq); v("li", li); v("fl", fl); v("va", va);
		v("q", q); v("st", st); v("pq", pq); v("si", si); v("ms", ms); v("us", us); v("ums", ums); v("bits", bits);
	}
	MZ_SERIALIZE
};
struct Maps {
	std::map<std::string, int32_t> msi; std::map<std::wstring, Inner> mwo; std::unordered_map<std::string, double> umsd; std::multimap<int32_t, std::string> mm; std::unordered_multimap<std::string, int32_t> umm;
	std::map<int32_t, std::string> mis; std::map<uint64_t, bool> mub; std::map<double, int32_t> mdi; std::map<tp_s, int32_t> mtp; std::map<ch::seconds, std::string> mdur; std::map<Color, int32_t> men;
	template <class V> void visit(V& v) {
		v("msi", msi); v("mwo", mwo); v("umsd", umsd); v("mm", mm); v("umm", umm);
		v("mis", mis, A_NOXML); v("mub", mub, A_NOXML); v("mdi", mdi, A_NOXML); v("mtp", mtp, A_NOXML); v("mdur", mdur, A_NOXML); v("men", men);
	}
	MZ_SERIALIZE
};
struct Wrappers {
	std::optional<int32_t> oi; std::optional<std::string> os; std::optional<Inner> oo; std::optional<std::vector<int32_t>> ov; std::unique_ptr<int64_t> up; std::shared_ptr<std::string> sp; std::unique_ptr<Inner> upo;
	std::pair<int32_t, std::string> pr; std::tuple<int8_t, std::string, double> tu; std::atomic<int32_t> at{ 0 }; Ext ext;
	std::vector<uint8_t> bin; std::vector<char> binc; std::vector<int8_t> bins;
	signed char sca[3] = { 0, 0, 0 }; unsigned char uca[2] = { 0, 0 }; char cca[2] = { 0, 0 }; std::array<uint8_t, 3> aru{};      // native byte arrays under a key
	template <class V> void visit(V& v) { v("oi", oi); v("os", os); v("oo", oo); v("ov", ov); v("up", up); v("sp", sp); v("upo", upo); v("pr", pr); v("tu", tu); v("at", at); v("ext", ext); v("bin", bin); v("binc", binc); v("bins", bins);
		v("sca", sca); v("uca", uca); v("cca", cca); v("aru", aru); }
	MZ_SERIALIZE
};
struct Zoo {
	Scalars sc; Chrono chr; Containers co; Maps ma; Wrappers wr; Derived d; int32_t tail = 0;
	template <class V> void visit(V& v) { v("sc", sc); v("chr", chr); v("co", co); v("ma", ma); v("wr", wr); v("d", d); v("tail", tail); }
	MZ_SERIALIZE
};

// a class whose number of fields differs between the counting pass and the writing pass (consistency error detected mid-save by binary archives)
struct Flaky {
	int32_t x = 0; std::string y; int32_t z = 0; mutable int passes = 0;
	template <class V> void visit(V& v) { v("x", x); v("y", y); }
	template <class A> void Serialize(A& archive) { SerV<A> v{ archive }; v("x", x); v("y", y); if (++passes > 1) v("z", z); }
};
struct FlakyHolder {
	std::vector<Flaky> items; int32_t tail = 0;
	template <class V> void visit(V& v) { v("items", items); v("tail", tail); }
	MZ_SERIALIZE
};

// models whose first member is a string of controllable length (alignment sweeps of the chunked stream readers)
struct PadStr { std::string v; };
inline void gen(vh::Rng& r, PadStr& p, const Ctx& c) { if (c.padLen >= 0) p.v.assign(size_t(c.padLen), 'p'); else genString(r, p.v, c); }
inline std::string desc(const PadStr& p, const Ctx& c) { return desc(p.v, c); }
template <> struct ShapeOf<PadStr> { static std::string get(const Ctx& c) { return shape<std::string>(c); } };
template <class A, class K> bool Serialize(A& a, K&& k, PadStr& p) { return Serialize(a, std::forward<K>(k), p.v); }
struct Padded {
	PadStr pad; int64_t big = 0; std::u16string wide; double d = 0; std::vector<std::string> vs; std::map<std::string, int32_t> m; tp_ms t; std::vector<uint8_t> bin; std::optional<std::string> os; Inner in; uint16_t tail = 0;
	template <class V> void visit(V& v) { v("pad", pad); v("big", big); v("wide", wide); v("d", d); v("vs", vs); v("m", m); v("t", t); v("bin", bin); v("os", os); v("in", in); v("tail", tail); }
	MZ_SERIALIZE
};
struct CsvPadded {
	PadStr pad; int32_t id = 0; std::string name; std::u16string wide; double val = 0; std::string last;
	template <class V> void visit(V& v) { v("pad", pad); v("id", id); v("name", name); v("wide", wide); v("val", val); v("last", last); }
	MZ_SERIALIZE
};

// CSV row: flat scalars only
struct CsvRow {
	int32_t id = 0; std::string name; double val = 0; bool flag = false; uint64_t big = 0; std::u16string wide; Color col = Color::Red; tp_ms when; ch::seconds dur{}; std::optional<int32_t> opt; float f = 0; int8_t small = 0;
	template <class V> void visit(V& v) { v("id", id); v("name", name); v("val", val); v("flag", flag); v("big", big); v("wide", wide); v("col", col); v("when", when); v("dur", dur); v("opt", opt); v("f", f); v("small", small); }
	MZ_SERIALIZE
};

// arbitrary-shape tree: every node is an object {"t":kind,"v":payload}
struct DynNode {
	int32_t t = 0;     // 0 null 1 bool 2 int 3 uint 4 double 5 string 6 array 7 object
	bool b = false; int64_t i = 0; uint64_t u = 0; double d = 0; std::string s; std::vector<DynNode> a; std::map<std::string, DynNode> o;
	template <class A> void Serialize(A& archive) {
		SerV<A> sv{ archive };
		sv("t", t);
		switch (t) {
		case 1: sv("v", b); break;
		case 2: sv("v", i); break;
		case 3: sv("v", u); break;
		case 4: sv("v", d); break;
		case 5: sv("v", s); break;
		case 6: sv("v", a); break;
		case 7: sv("v", o); break;
		default: break;
		}
	}
};
inline void genDyn(vh::Rng& r, DynNode& n, const Ctx& c, int depth) {
	n = DynNode();
	int maxKind = depth >= 4 ? 5 : 7;
	n.t = int32_t(r.range(0, maxKind));
	switch (n.t) {
	case 1: n.b = r.chance(1, 2); break;
	case 2: n.i = genInt<int64_t>(r); break;
	case 3: n.u = genInt<uint64_t>(r); break;
	case 4: n.d = genFloat<double>(r, c); break;
	case 5: genString(r, n.s, c); break;
	case 6: { int k = int(r.range(0, 3)); n.a.resize(size_t(k)); for (auto& e : n.a) genDyn(r, e, c, depth + 1); break; }
	case 7: { int k = int(r.range(0, 3)); for (int j = 0; j < k; ++j) { std::string key; genName(r, key, c); genDyn(r, n.o[key], c, depth + 1); } break; }
	default: break;
	}
}
inline void gen(vh::Rng& r, DynNode& n, const Ctx& c) { genDyn(r, n, c, 0); }
inline std::string desc(const DynNode& n, const Ctx& c) {
	switch (n.t) {
	case 0: return "{\"dyn\":0}";
	case 1: return std::string("{\"dyn\":1,\"v\":") + (n.b ? "true" : "false") + "}";
	case 2: return "{\"dyn\":2,\"v\":" + std::to_string(n.i) + "}";
	case 3: return "{\"dyn\":3,\"v\":" + std::to_string(n.u) + "}";
	case 4: return "{\"dyn\":4,\"v\":" + descFloat(n.d) + "}";
	case 5: return "{\"dyn\":5,\"v\":" + desc(n.s, c) + "}";
	case 6: return "{\"dyn\":6,\"v\":" + descSeq(n.a.begin(), n.a.end(), c) + "}";
	case 7: return "{\"dyn\":7,\"v\":" + descMap(n.o, c, false) + "}";
	default: return "{\"dyn\":" + std::to_string(n.t) + "}";
	}
}
template <> struct ShapeOf<DynNode> { static std::string get(const Ctx&) { return "{\"k\":\"dyn\"}"; } };

}  // namespace mz

using mzColor = mz::Color;
REGISTER_ENUM(mzColor, {
	{ mz::Color::Red, "Red" }, { mz::Color::Green, "Green" }, { mz::Color::Blue, "Blue" }, { mz::Color::Neg, "Neg" }, { mz::Color::Big, "Big" }
})
