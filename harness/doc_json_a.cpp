#include "doc_ops.h"
#include "bitserializer/rapidjson_archive.h"
using TA = BitSerializer::Json::RapidJson::JsonArchive;
namespace doc {
void register_json_a(Registry& r) {
#define X(N, ...) reg<TA, __VA_ARGS__>(r, "json", #N);
	DOC_ROOT_SCALARS(X) DOC_TYPED_KEY_MAPS(X)
#undef X
}
}
