#include "doc_ops.h"
#include "bitserializer/csv_archive.h"
using TA = BitSerializer::Csv::CsvArchive;
namespace doc {
using CsvMaps = std::vector<std::map<std::string, std::string>>;
void register_csv(Registry& r) {
#define X(N, ...) reg<TA, __VA_ARGS__>(r, "csv", #N);
	X(csvrows, std::vector<mz::CsvRow>) X(csvmaps, CsvMaps) X(csvscalars, std::vector<mz::Scalars>) X(csvlist, std::list<mz::CsvRow>) X(csvflist, std::forward_list<mz::CsvRow>) X(csvdeque, std::deque<mz::CsvRow>) X(csvpadded, std::vector<mz::CsvPadded>)
#undef X
}
}
