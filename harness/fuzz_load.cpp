// Coverage-guided target for C02 (thorough tier): libFuzzer + ASan + UBSan over the real loaders and string converters.
// Input layout: byte 0 selects the entry (archive x target type), byte 1 the policies / stream kind, the rest is the document.
// Any std::exception is the correct outcome for hostile input; crashes, sanitizer reports, timeouts (-timeout) and
// out-of-memory (-rss_limit_mb / -malloc_limit_mb) are reported by libFuzzer as artifacts, which the checker re-runs and classifies.
#include "vh_common.h"
#include "models.h"
#include "bitserializer/rapidjson_archive.h"
#include "bitserializer/pugixml_archive.h"
#include "bitserializer/csv_archive.h"
#include "bitserializer/msgpack_archive.h"
#include <sstream>

using namespace BitSerializer;

template <class TArchive, class T> static void loadAs(const std::string& doc, const SerializationOptions& opt, int kind) {
	auto v = std::make_unique<T>();
	try {
		if (kind == 0) LoadObject<TArchive>(*v, doc, opt);
		else if (kind == 1) { std::istringstream is(doc); LoadObject<TArchive>(*v, is, opt); }
		else { vh::SlowBuf sb(doc, kind == 2 ? 1 : 7); std::istream is(&sb); LoadObject<TArchive>(*v, is, opt); }
	}
	catch (const std::exception&) {}
}

template <class TArchive> static void loadDoc(unsigned sel, const std::string& doc, const SerializationOptions& opt, int kind) {
	switch (sel % 8) {
	case 0: loadAs<TArchive, mz::Zoo>(doc, opt, kind); break;
	case 1: loadAs<TArchive, mz::DynNode>(doc, opt, kind); break;
	case 2: loadAs<TArchive, std::vector<mz::Derived>>(doc, opt, kind); break;
	case 3: loadAs<TArchive, std::map<std::string, std::vector<int32_t>>>(doc, opt, kind); break;
	case 4: loadAs<TArchive, mz::Wrappers>(doc, opt, kind); break;
	case 5: loadAs<TArchive, std::vector<std::vector<std::string>>>(doc, opt, kind); break;
	case 6: loadAs<TArchive, mz::Maps>(doc, opt, kind); break;
	default: loadAs<TArchive, mz::Containers>(doc, opt, kind); break;
	}
}

extern "C" int LLVMFuzzerTestOneInput(const uint8_t* data, size_t size) {
	if (size < 2) return 0;
	unsigned sel = data[0], pol = data[1];
	std::string doc(reinterpret_cast<const char*>(data + 2), size - 2);
	SerializationOptions opt;
	opt.mismatchedTypesPolicy = (pol & 1) ? MismatchedTypesPolicy::Skip : MismatchedTypesPolicy::ThrowError;
	opt.overflowNumberPolicy = (pol & 2) ? OverflowNumberPolicy::Skip : OverflowNumberPolicy::ThrowError;
	opt.utfEncodingErrorPolicy = (pol & 4) ? Convert::Utf::UtfEncodingErrorPolicy::Skip : Convert::Utf::UtfEncodingErrorPolicy::ThrowError;
	int kind = (pol >> 3) & 3;
	switch ((sel >> 3) % 5) {
	case 0: loadDoc<Json::RapidJson::JsonArchive>(sel, doc, opt, kind); break;
	case 1: loadDoc<Xml::PugiXml::XmlArchive>(sel, doc, opt, kind); break;
	case 2: loadDoc<MsgPack::MsgPackArchive>(sel, doc, opt, kind); break;
	case 3: {
		try {
			if (sel & 1) { std::vector<mz::CsvRow> rows; if (kind == 0) LoadObject<Csv::CsvArchive>(rows, doc, opt); else { std::istringstream is(doc); LoadObject<Csv::CsvArchive>(rows, is, opt); } }
			else { std::vector<std::map<std::string, std::string>> rows; if (kind == 0) LoadObject<Csv::CsvArchive>(rows, doc, opt); else { vh::SlowBuf sb(doc, 3); std::istream is(&sb); LoadObject<Csv::CsvArchive>(rows, is, opt); } }
		}
		catch (const std::exception&) {}
		break;
	}
	default: {
		// string converters
		try { (void)Convert::To<int64_t>(doc); } catch (const std::exception&) {}
		try { (void)Convert::To<double>(doc); } catch (const std::exception&) {}
		try { (void)Convert::To<mz::tp_ns>(doc); } catch (const std::exception&) {}
		try { (void)Convert::To<std::chrono::seconds>(doc); } catch (const std::exception&) {}
		try { (void)Convert::To<std::u16string>(doc); } catch (const std::exception&) {}
		try { (void)Convert::To<mz::Color>(doc); } catch (const std::exception&) {}
		try { std::u16string w(reinterpret_cast<const char16_t*>(doc.data()), doc.size() / 2); (void)Convert::To<std::string>(w); (void)Convert::To<uint8_t>(w); } catch (const std::exception&) {}
		break;
	}
	}
	return 0;
}
