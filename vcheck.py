#!/usr/bin/python3
"""Single entry point:  vcheck.py <Cxx> --tier quick|thorough   |   vcheck.py --setup   |   vcheck.py <Cxx> --replay <file>

exit 0: property held on everything explored (KNOWN-FINDING lines allowed)
exit 1: VIOLATION property=<id> replay=<path> printed for every violation key not in known_findings.json
exit 2: harness failure / nothing observed (inconclusive run)
"""
import argparse
import importlib
import json
import os
import sys
import traceback

VERIF = os.path.dirname(os.path.abspath(__file__))
sys.path.insert(0, VERIF)

ALL = ['C%02d' % i for i in range(1, 21)]


def main():
    ap = argparse.ArgumentParser()
    ap.add_argument('pid', nargs='?')
    ap.add_argument('--tier', default=os.environ.get('VERIF_TIER', 'quick'), choices=['quick', 'thorough'])
    ap.add_argument('--setup', action='store_true')
    ap.add_argument('--replay')
    a = ap.parse_args()
    if a.setup:
        from vlib import build
        rc = 0
        for pid in ALL:
            try:
                m = importlib.import_module('checks.' + pid.lower())
            except ImportError:
                continue
            try:
                if hasattr(m, 'prebuild'):
                    m.prebuild()
            except build.BuildError as e:
                print('SETUP build error for %s: %s' % (pid, e), file=sys.stderr)
                rc = 2
        return rc
    if not a.pid:
        ap.error('property id required')
    pid = a.pid.upper()
    try:
        m = importlib.import_module('checks.' + pid.lower())
    except ImportError as e:
        print('no check for %s: %s' % (pid, e), file=sys.stderr)
        return 2
    try:
        if a.replay:
            with open(a.replay) as f:
                w = json.load(f)
            return m.replay(w)
        return m.run(a.tier)
    except Exception:  # harness failure, never a verdict
        traceback.print_exc()
        return 2


if __name__ == '__main__':
    sys.exit(main())
