#!/usr/bin/python3
"""usage: mutant_eval.py <seeded-dir-name> <check-id> [<check-id>...]
Applies /verif/seeded/<name>/patch.diff to /repo, runs the quick tier of the given checks, restores /repo, and records the outcome in
/verif/seeded/<name>/result.json.  Never commits anything in /repo."""
import json, os, re, subprocess, sys, time
name, checks = sys.argv[1], sys.argv[2:]
d = '/verif/seeded/' + name
patch = d + '/patch.diff'
assert subprocess.run(['git', '-C', '/repo', 'status', '--porcelain', '--', 'include', 'src'], capture_output=True, text=True).stdout.strip() == '', '/repo is not clean'
r = subprocess.run(['git', '-C', '/repo', 'apply', '--whitespace=nowarn', patch], capture_output=True, text=True)
if r.returncode != 0:
    r = subprocess.run(['git', '-C', '/repo', 'apply', '--3way', '--whitespace=nowarn', patch], capture_output=True, text=True)
    if r.returncode != 0:
        print('patch does not apply:', r.stderr)
        sys.exit(2)
    subprocess.run(['git', '-C', '/repo', 'reset', '-q'])
res = {'mutant': name, 'runs': []}
try:
    for c in checks:
        t0 = time.time()
        env = dict(os.environ, VERIF_SEED=os.environ.get('VERIF_SEED', '1'), VERIF_EVIDENCE_DIR='/tmp/mut/evidence')
        p = subprocess.run(['python3', '/verif/vcheck.py', c, '--tier', 'quick'], capture_output=True, text=True, env=env, cwd='/verif')
        keys = re.findall(r'VIOLATION property=\S+ replay=\S+ key=(\S+)', p.stdout)
        res['runs'].append({'check': c, 'exit': p.returncode, 'violation_keys': keys[:12], 'n_keys': len(keys), 'wall_s': round(time.time() - t0, 1), 'tail': p.stdout.strip().splitlines()[-1:] })
        print(c, 'exit', p.returncode, len(keys), 'keys', keys[:4])
finally:
    subprocess.run(['git', '-C', '/repo', 'checkout', '--', 'include', 'src'])
    subprocess.run(['git', '-C', '/repo', 'clean', '-fdq', '--', 'include', 'src'])
res['caught_by'] = [r['check'] for r in res['runs'] if r['exit'] == 1]
json.dump(res, open(d + '/result.json', 'w'), indent=1)
print('caught by', res['caught_by'])
