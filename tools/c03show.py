#!/usr/bin/python3
"""usage: c03show.py <key-substring>  - decode a C03 witness"""
import glob, json, sys
for f in sorted(glob.glob('/verif/evidence/replay/C*-*-0.json')):
    w = json.load(open(f))
    if sys.argv[1] not in w['key']:
        continue
    wit = w['witness']
    kv = dict(x.split('=', 1) for x in wit['case'].split(' ') if '=' in x)
    print('KEY', w['key'])
    print(' doc:', repr(bytes.fromhex(kv['doc']))[:1500])
    prog = []
    for o in kv['prog'].split(';'):
        f = o.split(':')
        if f[0] in ('G', 'O', 'A'):
            f[1] = bytes.fromhex(f[1]).decode()
        prog.append(':'.join(f))
    print(' prog:', prog)
    print(' other:', {k: v for k, v in kv.items() if k not in ('doc', 'prog')})
    print(' event:', str(wit.get('event'))[:1500])
    print(' expected:', wit.get('expected_log', '')[:1000])
    if len(sys.argv) < 3:
        break
