#!/usr/bin/python3
"""Prints the markdown table of seeded changes (DESIGN.md section 9) from seeded/*/meta.json and result.json."""
import glob, json, os
NOTES = json.load(open('/verif/seeded/NOTES.json')) if os.path.exists('/verif/seeded/NOTES.json') else {}
print('| change | property | what was changed (by the sub-agent) | shows when | caught by (quick tier) | note |')
print('|---|---|---|---|---|---|')
for d in sorted(glob.glob('/verif/seeded/C*-*')):
    name = os.path.basename(d)
    try:
        m = json.load(open(d + '/meta.json'))
    except Exception:
        m = {}
    try:
        r = json.load(open(d + '/result.json'))
    except Exception:
        r = {'runs': [], 'caught_by': []}
    files = ', '.join(os.path.basename(f) for f in (m.get('files') or []))[:60]
    summ = str(m.get('summary', '')).replace('|', '/').replace('\n', ' ')[:230]
    when = str(m.get('manifests_when', '')).replace('|', '/').replace('\n', ' ')[:200]
    caught = ', '.join('%s (%d keys)' % (x['check'], x['n_keys']) for x in r['runs'] if x['exit'] == 1) or 'NOT CAUGHT'
    missed = ', '.join(x['check'] for x in r['runs'] if x['exit'] == 0)
    print('| %s | %s | %s: %s | %s | %s%s | %s |' % (name, m.get('property', name[:3]), files, summ, when, caught, (' ; silent: ' + missed) if missed else '', NOTES.get(name, '')))
