#!/bin/bash
# Regression guard for "fix:" commits: builds and runs the FULL upstream suite (all archives ON) from a scratch copy of /repo.
# usage: upstream_suite.sh [scratch-dir]   (default /var/tmp/bsup; remove it when done)
set -e
S=${1:-/var/tmp/bsup}
mkdir -p $S/src $S/stub
rsync -a --delete --exclude _build --exclude .git /repo/ $S/src/
[ -f $S/stub/librapidjson.a ] || ar rcs $S/stub/librapidjson.a
if [ ! -f $S/build/build.ninja ]; then
  cmake -G Ninja -S $S/src -B $S/build -DCMAKE_BUILD_TYPE=Release -DBUILD_TESTS=ON -DBUILD_CSV_ARCHIVE=ON -DBUILD_MSGPACK_ARCHIVE=ON \
    -DBUILD_RAPIDJSON_ARCHIVE=ON -DBUILD_PUGIXML_ARCHIVE=ON -DBUILD_RAPIDYAML_ARCHIVE=OFF -DCMAKE_CXX_FLAGS=-Wno-error \
    -DCMAKE_EXE_LINKER_FLAGS=-L$S/stub -DGTest_DIR=/root/miniconda/lib/cmake/GTest > $S/cmake.log 2>&1 || { tail -30 $S/cmake.log; exit 2; }
fi
cmake --build $S/build -j16 > $S/build.log 2>&1 || { grep -E "error|Error" $S/build.log | head -30; exit 2; }
ctest --test-dir $S/build -j16 --timeout 900 2>&1 | tail -15
