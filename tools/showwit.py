#!/usr/bin/python3
"""usage: showwit.py <pid> <key-substring> [n]  - print witnesses from evidence/replay"""
import glob, json, sys
pid, sub = sys.argv[1], sys.argv[2]
n = int(sys.argv[3]) if len(sys.argv) > 3 else 2
shown = 0
for f in sorted(glob.glob('/verif/evidence/replay/%s-*-0.json' % pid)):
    w = json.load(open(f))
    if sub not in w['key']:
        continue
    wit = w['witness']
    print('KEY', w['key'], 'count', w['count_in_run'])
    print(' case:', wit.get('case'))
    ev = wit.get('event') or wit.get('detail') or {}
    for k, v in ev.items():
        s = json.dumps(v)
        if k == 'bytes':
            try:
                s = repr(bytes.fromhex(v)[:400])
            except Exception:
                pass
        print('  %s: %s' % (k, s[:700]))
    if 'stderr' in wit:
        print('  stderr:', wit['stderr'][:1200])
    shown += 1
    if shown >= n:
        break
