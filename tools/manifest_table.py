CHECKS = [
 dict(id='C11', level='exploration', technique='exhaustive runtime sweep under UBSan + CPython-codec oracle over recorded outputs',
      text='Every Unicode scalar value (1,112,064) is pushed through every Decode/Encode path of the 7 encoder classes and Convert::To under both policies, appended to a non-empty output, and compared with an arithmetic reference that is itself compared with CPython codecs over the whole code space on every run; random/adversarial sequences are judged by CPython codecs under ASan. Exhaustive per code point, sampled for sequences.',
      note='Trusts CPython codecs and the little-endian host; sequences longer than 4096 and other hosts are not executed.'),
 dict(id='C12', level='exploration', technique='exhaustive short-string sweeps under UBSan/ASan with table-3-7 reference monitor cross-checked against CPython errors=replace',
      text='All UTF-8 strings of length<=3, 4-byte strings over 17 tail classes, UTF-16 unit sequences over class representatives, UTF-32 units by class, plus random ill-formed fragments embedded in valid text; oracle = well-formed output, marks/count relation, position of first ill-formed sequence, preserved valid text.',
      note='Number of marks per ill-formed run is not pinned (1..run length); a truncated tail at the end of input may be reported as UnexpectedEnd.'),
]
_BUILT = {c['id'] for c in CHECKS}
NOT_APPLICABLE = [dict(property_id='C%02d' % i, reason='check not built yet in this session (work in progress, see DESIGN.md section 5 for the planned monitor)')
                  for i in range(1, 21) if 'C%02d' % i not in _BUILT]
