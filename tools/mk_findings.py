#!/usr/bin/python3
"""Regenerates known_findings.json (run by hand after a fix: commit is added or history is rewritten; never at check time)."""
import json, subprocess
log = subprocess.run(['git', '-C', '/repo', 'log', '--format=%h %s'], stdout=subprocess.PIPE, text=True).stdout.splitlines()


def h(sub):
    for l in log:
        if sub in l:
            return l.split()[0]
    raise KeyError(sub)


FIXED = [
    # (properties, key pattern (informational), commit subject substring, what failed)
    (['C12', 'C02'], '8->16|8->32/decode/*', 'UTF-8 decoder accepted overlong', 'Utf8::Decode accepted overlong forms (C0 80), surrogates (ED A0 80), code points above U+10FFFF (F4 90 80 80) and swallowed well-formed text after a bad tail (E2 41 42 lost AB)'),
    (['C12'], '16->8|16->32/*/accepted', 'second unit of a UTF-16 surrogate pair', 'high surrogate followed by a unit >= U+E000 (D800 E000) was combined into a supplementary code point'),
    (['C12'], '32->8|32->16/*', 'UTF-32 input was transcoded', 'UTF-32 input with surrogates or values above U+10FFFF (0000D800, 00110000, FFFFFFFF) was transcoded into ill-formed UTF-8/UTF-16'),
    (['C12'], '16->32/*/wrong-count', 'lost the count of replaced sequences', 'Utf16::Decode reported InvalidSequencesCount 0 with UnexpectedEnd after marks had been written (D800 D800)'),
    (['C04', 'C02'], 'direct/sanitizer/ubsan:convert_fundamental.h*', 'large integer to a floating', 'Convert::To<float>(INT64_MAX) / To<float|double>(UINT64_MAX): float-cast-overflow UB when casting the rounded value back'),
    (['C14'], 'tp-print-negative-year-width/*', 'years -999..-1', 'years -999..-1 printed with three digits ("-002-01-01T00:00:00Z")'),
    (['C14', 'C02'], 'sanitizer/ubsan:chrono.h:signed integer overflow*', 'first day of its range', 'ToString(time_point<system_clock,nanoseconds>::min()) overflowed in floor<days> subtraction'),
    (['C14'], 'tp-roundtrip/ns first day of range', 'first day of the target range', '"1677-09-21T00:12:43.145224192Z" (= time_point<ns>::min()) rejected with out_of_range when parsed back'),
    (['C14', 'C02'], 'sanitizer/ubsan:convert_chrono.h:negation (int)', '32-bit representation', 'ToString(duration<int32_t, ratio<86400>>::min()) called std::abs(INT_MIN)'),
    (['C14', 'C15'], 'sanitizer/ubsan:convert_chrono.h:negation (long)', 'minimal 64-bit value', 'Convert::To<duration<int64,days>>("-P9223372036854775808D") negated 2^63 as int64'),
    (['C14', 'C02'], 'tp-exception/h|min|days extreme years', 'very large year', 'ToString(time_point<hours>::min()) failed with "insufficient buffer size"; longer years wrote past the 32 byte stack buffer'),
    (['C14', 'C06'], 'tp-bints-nanoseconds-range/*', 'negative nanoseconds', 'time_point/duration before the epoch with sub-second part gave CBinTimestamp with negative Nanoseconds (-1 ns -> 0 s, -1 ns)'),
    (['C14'], 'sanitizer/ubsan:convert_chrono.h:signed integer overflow N + N', 'maximum of 64-bit days', 'ToString(time_point<days int64>::max()): days + 719468 overflow'),
    (['C14', 'C15'], 'tp-exception/days max parse', 'extreme years', 'text of time_point<days int64>::max() could not be parsed back (era * 146097 range check), INT64 year arithmetic UB'),
    (['C15'], 'parse/sanitizer/ubsan:convert_chrono.h:signed integer overflow N * N', 'SafeDurationCast', 'Convert::To<hours>("PT18446744073709551615S"): signed overflow in SafeDurationCast precision check'),
    (['C15'], 'dt/accepted-invalid/*', 'February 29', '"2023-02-29T00:00:00Z" accepted (as March 1)'),
    (['C01', 'C02', 'C07'], 'crash/msgpack/*/ubsan:msgpack_readers.cpp:load of misaligned address', 'misaligned loads', 'any MsgPack document with a multi-byte value at an odd offset: misaligned reinterpret_cast load (UBSan alignment)'),
    (['C01', 'C08', 'C13'], 'json/*/load|compare/stream-utf16|utf32', 'JSON streams in UTF-16/UTF-32', 'JSON saved to a UTF-16/32 stream with non-ASCII text could not be loaded (ParseStream without source encoding)'),
    (['C01', 'C08'], 'json/r_u32', 'truncated when saved as root JSON value', 'uint32_t 4000000000 at JSON root saved as -294967296'),
    (['C01', 'C08', 'C20'], 'json/*/load/ParsingException (nonfinite)', 'incomplete JSON was silently produced', '{1.0, NaN} saved to JSON as the truncated text "[1.0," without error'),
    (['C01', 'C09', 'C10'], 'csv/*/load/ParsingException:Missing trailing double-quotes', 'quoted CSV value could not be read by key from a stream', 'quoted CSV value in column >= 2 unreadable from a stream'),
    (['C01', 'C03'], 'json/wrappers/load/Mismatched (null object/array)', 'JSON null in place of an object or array', 'std::optional<std::vector<int>> / unique_ptr<T> saved as null could not be loaded back'),
    (['C01', 'C03'], 'json/wrappers/load/Mismatched (null string)', 'JSON null in place of a string', 'std::optional<std::string> saved as null could not be loaded back'),
    (['C01', 'C18'], 'xml/*/load/Mismatched types (empty container)', 'empty containers saved to XML', 'empty std::vector member saved as <vd /> raised MismatchedTypes on load'),
    (['C01', 'C08'], 'xml/*/compare/*/s (whitespace only)', 'consisting only of whitespace', 'string "\\n" saved to XML was loaded as not-loaded/empty'),
    (['C02', 'C13', 'C10'], 'asan:memcpy-param-overlap', 'overlapping memcpy', 'CEncodedStreamReader / CBinaryStreamReader squeeze with overlapping memcpy'),
    (['C02', 'C13'], 'hang', 'endless loop when UTF-16/UTF-32 stream ends with a part of code unit', 'UTF-16/32 stream with an odd number of bytes made ReadChunk() spin forever (CSV stream reader never returned)'),
    (['C03', 'C17'], 'atomic absent key', 'std::atomic was overwritten', 'std::atomic<int> member absent in the document was overwritten with an uninitialised value and reported as loaded'),
    (['C01', 'C05', 'C07'], 'msgpack/v_opt/load/ParsingException', 'MsgPack array lost its position', 'std::vector<std::optional<int>> {2, null, 3} could not be loaded: array index not advanced for skipped/null elements'),
    (['C01', 'C05', 'C07'], 'msgpack/v_bytes/load/ParsingException', 'binary containers could not be loaded from a regular array', 'std::vector<std::vector<uint8_t>> could not be loaded; byte container from array of ints consumed the neighbour'),
    (['C07', 'C10'], 'stream ReadValue(nullptr)', 'non-null value is loaded as null', 'stream reader: loading nullptr_t from a non-nil value threw "No more values to read" after skipping it'),
    (['C07'], 'ext16/ext32 timestamp', 'type of MsgPack extension in ext16/ext32', 'timestamp encoded as ext16/ext32 (c8 00 0c ff ...) not recognised by the memory reader'),
    (['C20', 'C02', 'C07'], 'terminate:BitSerializer::ParsingException', 'exceptions thrown from destructors', 'one byte MsgPack document 0x81 into a class -> std::terminate from ~CMsgPackReadObjectScope; ragged CSV rows -> terminate from ~CCsvWriteObjectScope'),
    (['C03', 'C10'], 'msgpack stream reposition', 'could not be repositioned', 'MsgPack stream larger than 256 bytes with members requested out of order: seekg failed (eofbit+failbit) and the result was ignored, garbage parsed'),
    (['C06'], 'int-not-compact/nonneg-in-signed-family', 'most compact format for positive values of signed types', 'int16_t 173 written as int16 (D1 00 AD) instead of uint8 (CC AD); same for 32768..65535 and 2^31..2^32-1'),
    (['C20'], 'in-fail/died/msgpack/terminate:std::ios_base::failure', 'first read of a MsgPack stream terminated', 'MsgPack stream whose streambuf throws (or exceptions(badbit) is set) on the first read: exception escaped the noexcept constructor of CMsgPackStreamReader -> std::terminate'),
    (['C20', 'C02'], 'in-fail/died/csv/hang', 'CSV loading never finished when the input stream fails', 'CSV stream that goes bad() mid-way: CEncodedStreamReader::IsEnd() never true, endless empty rows'),
    (['C02'], 'died/xml/assert (end iterator)', 'end iterator was dereferenced', 'XML array with fewer items than std::tuple/std::array target: mValueIt->end() on the end iterator (pugixml assertion / UB)'),
    (['C02', 'C07'], 'crash/corrupt/asan:requested allocation / hang', 'preallocated with the size declared in the input', 'MsgPack DD DE 00 00 00 (array32 of 3.7e9 items) into std::deque<std::string>: minutes of CPU / allocation-size-too-big'),
    (['C13'], 'detect one-character text', 'consists of one UTF-16/UTF-32 character', 'BOM-less UTF-32 text of one character detected as UTF-16 (i + 4 < size)'),
    (['C03'], 'csv/exception/*Missing starting double-quotes* | csv/value/stream', 'quoted value when it was read repeatedly', 'CSV stream reader: a quoted cell ("116836", or one containing "") requested twice by key failed with "Missing starting double-quotes" or lost characters, because the in-place unescaping was applied again to the already unescaped bytes'),
    (['C03', 'C07'], 'msgpack/tail|value|exception after a partially read array', 'array and binary scopes left unread items', 'MsgPack: an array (or bin) member of which the object read fewer elements than stored (e.g. 0 of 4) left the reader inside the array; the next keyed request failed ("Unsupported key type" / false) and the data after the object was misread'),
    (['C17', 'C05'], 'msgpack/validation-fields/*', 'MsgPack path of nested scopes contained garbage', 'MsgPack stream: validation error path of a member of a nested object showed bytes of later strings instead of the parent key ("/1/z/absent" for parent "A"), the parent key string_view referred to the reader buffer that is reused by the next string read'),
    (['C17'], '*/validation-messages/* (Email)', 'Email validator accepted a domain part', 'Email() accepted "user@.com" (empty first label of the domain part)'),
    (['C17'], '*/validation-messages/last-field-truncated-by-maxValidationErrors', 'maxValidationErrors cut the list of messages', 'with maxValidationErrors=N the N-th reported field carried only the message of its first failing validator (KeyValue(key, v, Required(), Range(...)) reported one of two)'),
    (['C04', 'C08'], 'xml/attribute/*', 'XML attributes were loaded into numbers without range checking', 'XML attribute values were read with pugixml as_int()/as_uint()/as_float() and static_cast: au8="300" loaded 44 into uint8_t, ai16="70000" loaded 4464, au32="-1" loaded 0, ai="99999999999999999999" loaded INT64_MAX, af="1e999" loaded infinity, all silently and ignoring both policies'),
    (['C09'], 'writer/malformed/bare-CR-not-quoted', 'CSV writer did not quote values which contain carriage return', 'a cell containing U+000D without LF (e.g. "v\\r|") was written unquoted; a strict RFC 4180 reader (and CPython csv) sees a record break there'),
    (['C09'], 'reader/rejected/Parsing error/mem | reader/ragged-record-accepted/more', 'CSV string reader lost the last empty value', 'memory input "h1,h2\\n1," (last field empty, no final line break) was rejected with "Number of values are different than in header", and "a;b;c\\r\\n1;2;3;" (one field too many) was accepted'),
    (['C04'], 'document/msgpack/member/float->f32/* (inf, nan)', 'infinity and NaN could not be converted from double to float', 'MsgPack float64 +-infinity / NaN loaded into a float member was reported as Overflow (or skipped) although float represents them; Convert::To<float>(double infinity) threw out_of_range'),
    (['C04', 'C16'], 'document/xml|csv/*/float->int/wrong-value', 'numbers in exponent notation were truncated', 'XML/CSV text "1e+300" loaded into int64_t as 1, "1e+20" into uint32_t as 1, "0.5" into bool as false (only the "1.5" form was rejected): the integer prefix was taken and the exponent ignored'),
    (['C02'], 'died/msgpack/hang | fuzz/timeout/*', 'endless loop when loading a MsgPack map which contains a NaN key', 'MsgPack map with a NaN float key among several entries (e.g. 83 CB 7FF8000000000000 A1 61 ... ) loaded into std::map<std::string, T> never returned: the enumerated key is passed by reference to its own storage, NaN != NaN made the lookup rescan and restart the enumeration from the first entry forever (found by the libFuzzer stage, kept as a directed canary in the quick tier)'),
    (['C15'], 'dt/accepted-invalid/*', 'ISO-8601 date parser accepted a year with two signs', 'Convert::To<time_t>("+-10000-05-31T23:27:07Z") returned the instant of year -10000 instead of invalid_argument (the explicit plus sign was skipped and from_chars then took the minus); found by the thorough tier'),
    (['C10', 'C05'], 'json/hostile/value/[]', 'an element of std::set which was skipped by the policies was inserted', '[3212121212121212121869482,2024259981] into std::set<int32_t> under the Skip policies inserted an indeterminate value for the skipped element (different garbage from memory and from a stream; now a value-initialised element like the slot of a vector); found by the thorough tier of C10'),
    (['C10', 'C07'], 'msgpack/hostile/error-category/ParsingException*-vs-*Mismatched types', 'required one byte after the type code of an extension', 'the two bytes D6 80 (fixext4 without data) into a map: memory input reported ParsingException, stream input MismatchedTypes; the memory reader demanded a byte after the extension type code, so a valid empty extension at the end of input (C7 00 05) was reported as truncated'),
    (['C07'], 'illformed-accepted/*/0xc1', 'silently skipped the byte code 0xC1', 'a document with the never-used byte code 0xC1 as the value of a member that the target does not load (e.g. {"id":1,"zz_unknown":<C1>}) was accepted: SkipValue treated it as a one-byte value; found by the thorough tier'),
    (['C06'], 'data-differs/*/aru', 'std::array of single-byte integers was written to MsgPack as an array', 'std::array<uint8_t,3>{1,2,3} under a key was written as 93 01 02 03 (array of integers) while std::vector<uint8_t> and unsigned char[3] are written as C4 03 01 02 03 (bin): is_enumerable<> required iterator.operator*() and was false for raw-pointer iterators; found after adding native byte arrays to the model zoo'),
]

KNOWN = [
    ('C13', 'reader/nobom-utf8/text-with-nul-misdetected',
     'a BOM-less UTF-8 stream that starts with an ASCII character and contains U+0000 further on (e.g. 61 62 00 63) is detected as UTF-16/32: DetectEncoding analyses the zero-byte pattern of the whole first chunk, not of the first character. Deciding on the first character only was tried and reverted: it breaks upstream tests that rely on detecting BOM-less UTF-16 text starting with a non-ASCII (Cyrillic) character'),
    ('C08', 'xml/writer/carriage-return-written-raw',
     'XML text that contains U+000D (e.g. vector<string>{"S\\rR"}) is written with a raw CR byte by pugixml (node_pcdata is escaped only for <, >, & and other control characters); every conforming parser (expat) normalises it to U+000A (XML 1.0 section 2.11), and the library itself reads it back as LF (parse_eol). Third-party writer behaviour: pugixml has no format flag that emits &#13; in PCDATA'),
    ('C08', 'json/double-parsed-inexactly',
     'a double rendered with 17-18 significant digits or in the %.17e spelling (all standard JSON numbers for the same value) is loaded 1-3 ULP off: RapidJSON 1.1.0 default (non full-precision) number parsing; see the C01 entry for why the flag is not enabled'),
    ('C08', 'json/float-max-rejected-after-inexact-parse',
     '[3.4028234663852886e+38] (= FLT_MAX exactly) into vector<float>: parsed as a slightly larger double and rejected with Overflow; same root cause'),
    ('C18', 'xml/empty-string-is-null/populated-string-keeps-prior-text',
     'XML: an empty string is written as an empty element, which the reader treats as null = "not loaded" (pugixml_archive.h LoadValue: "Empty node is treated as Null"); loading <root><value/></root> into a vector<string>{"old"} or a class member holding "old" keeps "old" while a fresh target gets "". By design of the XML mapping (null and "" share one representation); changing it would alter the null semantics relied upon by optional/pointer members, so it is recorded, not repaired'),
    ('C10', 'json/invalid-utf8-accepted-from-memory-rejected-from-stream',
     'JSON with ill-formed UTF-8 inside a string (e.g. ["a\\xC0\\x80b"]) is accepted by the memory entry point (bytes copied as is, or UtfEncodingError / policy Skip applied later when the target is a wide string) but rejected with ParsingException by the stream entry point, whose AutoUTF transcoder validates; validating in memory too (kParseValidateEncodingFlag) breaks upstream test RapidJsonArchive.ShouldSkipInvalidUtfWhenPolicyIsSkip'),
    ('C10', 'json/memory-accepts-partial-utf8-bom',
     'an invalid JSON document that starts with a fragment of the UTF-8 BOM (a lone EF, BB or BF byte, e.g. BF 5B 31 5D) is accepted when loaded from memory and rejected when loaded from a stream: RapidJSON 1.1.0 EncodedInputStream<UTF8<>, MemoryStream> skips each BOM byte independently (third-party behaviour behind Document::Parse(const char*, size_t))'),
    ('C10', 'csv/stream-utf8-nobom/text-with-nul-misdetected',
     'the same BOM-less UTF-8 CSV bytes that contain U+0000 (e.g. a,b CRLF 1,x<00>y CRLF) load correctly from memory but are detected as UTF-16 when read from a stream (DetectEncoding scans the first chunk for zero bytes) and give other rows or a parsing error; see the C01 entry'),
    ('C01', 'json/double-parsed-inexactly',
     'about a third of random doubles saved to JSON are loaded 1-3 ULP off (e.g. bits 71c345dc8ea53499 saved as 1.0039996348836319e240 come back as ...349a): RapidJSON parses with kParseDefaultFlags; enabling kParseFullPrecisionFlag in RapidJSON 1.1.0 makes numbers such as 0.<400 zeros>1 read out of bounds in GetCachedPower10 (observed under UBSan/ASan), so the one-flag repair is not safe with this dependency'),
    ('C01', 'json/float-max-rejected-after-inexact-parse',
     'float +-FLT_MAX saved to JSON as 3.4028234663852886e38 is parsed (inexactly) as a slightly larger double and rejected with Overflow when loaded into float (same root cause as json/double-parsed-inexactly)'),
    ('C07', 'illformed-accepted/timestamp-nanoseconds-above-999999999',
     'timestamp 64/96 whose nanoseconds field exceeds 999999999 (forbidden by the specification, e.g. D7 FF FF FF FF FC 00 00 00 05) is accepted and the excess is carried into seconds instead of raising a parsing error; rejecting it breaks upstream test MsgPackArchive.SerializeClassWithTimestampAsKey which round-trips CBinTimestamp with arbitrary Nanoseconds'),
    ('C07', 'timestamp96/seconds-before-nanoseconds',
     'a Timestamp 96 produced by a conformant encoder (C7 0C FF + nanoseconds(32) + seconds(64)) is loaded as a different instant or rejected with Overflow, the readers expect seconds(64) + nanoseconds(32) (msgpack_readers.cpp ReadValue(CBinTimestamp&), see the C06 entry)'),
    ('C06', 'timestamp96/seconds-before-nanoseconds',
     'Timestamp 96 (seconds outside 0..2^34-1, e.g. any time before 1970) is written as C7 0C FF + seconds(64) + nanoseconds(32); the MessagePack specification defines nanoseconds(32) + seconds(64), so other decoders read a different instant or reject it (msgpack_writers.cpp WriteValue(CBinTimestamp), mirrored by the readers; the byte order is asserted by upstream test MsgPackWriterTest.ShouldWriteTimestamp96 and changing it would make existing data unreadable)'),
    ('C15', 'dur/component-not-representable-but-total-is',
     'ISO duration whose designators are individually not whole multiples of a coarse target unit is rejected with out_of_range although the total is representable, e.g. Convert::To<duration<int64,ratio<86400>>>("PT60H3600M") (= 5 days); each designator is converted to the target type on its own (convert_chrono.h parseNextPart/transformToDuration)'),
    ('C01', 'csv/zero-rows/empty-document-rejected',
     'a table with zero rows is saved to CSV as an empty document (no header can be written) which the CSV loader rejects ("Input string is empty, expected at least a header line")'),
    ('C01', 'csv/stream-utf8-nobom/text-with-nul-misdetected',
     'BOM-less UTF-8 CSV stream whose text contains U+0000 in the first 256 bytes is detected as UTF-16/32 by DetectEncoding (it scans the whole chunk for zero bytes; the same bytes are also well-formed UTF-16) and cannot be loaded back'),
    ('C01', 'json/map-key-with-nul',
     'JSON object keys are handled as C strings (FindMember(key.c_str()), name.GetString()): a std::map key containing U+0000 is truncated on load or trips the duplicate-key assertion on save'),
    ('C01', 'json/stream-nobom-utf16/second-character-not-ascii',
     'BOM-less UTF-16 JSON stream whose second character is not ASCII or that has a single character (root scalar such as 7 or "\\u4e2d...") is not recognised by RapidJSON AutoUTFInputStream (needs the pattern xx 00 xx 00) and cannot be loaded back'),
    ('C01', 'msgpack/noseek-stream/repositioning-required',
     'loading std::map / out-of-order members from a non-seekable MsgPack stream larger than the 256 byte buffer needs to re-read the object and fails with InputOutputError "Unable to set position in the input stream"'),
]

out = {'findings': []}
for props, key, sub, what in FIXED:
    c = h(sub)
    for p in props:
        out['findings'].append({'property': p, 'key': key, 'status': 'fixed', 'commit': c, 'what': 'fixed: property=%s %s %s' % (p, c, what)})
for p, key, what in KNOWN:
    out['findings'].append({'property': p, 'key': key, 'status': 'known', 'what': what})
json.dump(out, open('/verif/known_findings.json', 'w'), indent=1)
print(len(out['findings']), 'entries')
