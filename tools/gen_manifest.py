#!/usr/bin/python3
"""Regenerates MANIFEST.json from the table below (claimed checks) - run after adding a check."""
import json, os, subprocess, sys
VERIF = os.path.dirname(os.path.dirname(os.path.abspath(__file__)))
sys.path.insert(0, VERIF)
from tools.manifest_table import CHECKS, NOT_APPLICABLE

hooks_commits = []
try:
    out = subprocess.run(['git', '-C', '/repo', 'log', '--format=%H %s'], stdout=subprocess.PIPE, text=True).stdout
    for ln in out.splitlines():
        h, s = ln.split(' ', 1)
        if s.startswith('verif-hook:'):
            hooks_commits.append(h)
except Exception:
    pass

checks = []
for c in CHECKS:
    checks.append({
        'property_id': c['id'],
        'quick_cmd': '/usr/bin/python3 vcheck.py %s --tier quick' % c['id'],
        'thorough_cmd': '/usr/bin/python3 vcheck.py %s --tier thorough' % c['id'],
        'evidence_file': '/verif/evidence/%s.json' % c['id'],
        'replay_cmd_template': '/usr/bin/python3 vcheck.py %s --replay {path}' % c['id'],
        'engine': c.get('engine', 'vcheck'),
        'level_claimed': {'category': c['level'], 'text': c['text'], 'design_ref': 'DESIGN.md section 5 / %s' % c['id']},
        'level_note': c['note'],
        'technique': c['technique'],
    })
m = {
    'version': 1,
    'setup_cmd': '/usr/bin/python3 vcheck.py --setup',
    'hooks': {
        'guard': 'BITSERIALIZER_VERIF',
        'enable': 'every driver is compiled from /repo working tree with -DBITSERIALIZER_VERIF (see vlib/build.py)',
        'baseline_off_cmd': 'cmake --build /repo/_build && ctest --test-dir /repo/_build -j8 --timeout 900',
        'source_commits': hooks_commits,
        'add_only': True,
    },
    'engines': [{'name': 'vcheck', 'path': '/verif/vcheck.py', 'serves_properties': [c['id'] for c in CHECKS],
                 'kind_free_text': 'runtime monitoring: real library code compiled with ASan/UBSan/TSan, driven by generated hostile/stress workloads; oracles = independent reference implementations (CPython codecs/json/expat/csv, own MessagePack codec, glibc strtod, exact rationals) over recorded events'}],
    'checks': checks,
    'notes': 'known_findings.json lists genuine defects (status known / fixed). See DESIGN.md.',
    'not_applicable': NOT_APPLICABLE,
}
with open(os.path.join(VERIF, 'MANIFEST.json'), 'w') as f:
    json.dump(m, f, indent=1)
print('MANIFEST.json: %d checks, %d not_applicable' % (len(checks), len(NOT_APPLICABLE)))
