"""Content-addressed build cache for the harness drivers.

Everything is compiled from $VERIF_REPO (default /repo) *working tree* at check time, with
-DBITSERIALIZER_VERIF.  A build is keyed by the SHA-256 of every library source/header, the
harness sources it uses and the flags, so an edit to /repo always forces a rebuild.
"""
import hashlib
import os
import shutil
import subprocess
import sys
import time
from concurrent.futures import ThreadPoolExecutor

VERIF = os.path.dirname(os.path.dirname(os.path.abspath(__file__)))
REPO = os.environ.get('VERIF_REPO', '/repo')
BUILD = os.path.join(VERIF, 'build')
HARNESS = os.path.join(VERIF, 'harness')

GUARD = 'BITSERIALIZER_VERIF'

COMMON = ['-std=c++17', '-g', '-fno-omit-frame-pointer', '-D' + GUARD, '-Wno-deprecated-declarations', '-pthread']

VARIANTS = {
    'asan': dict(cxx='g++', flags=['-O1', '-fsanitize=address,undefined', '-fsanitize=float-cast-overflow',
                                   '-fno-sanitize-recover=all']),
    'asan32': dict(cxx='g++', flags=['-O1', '-fsanitize=address,undefined', '-fsanitize=float-cast-overflow',
                                     '-fno-sanitize-recover=all', '-DBITSERIALIZER_VERIF_CHUNK_SIZE=32']),
    'ubsan': dict(cxx='g++', flags=['-O2', '-fsanitize=undefined', '-fsanitize=float-cast-overflow',
                                    '-fno-sanitize-recover=all']),
    'tsan': dict(cxx='g++', flags=['-O1', '-fsanitize=thread']),
    'plain': dict(cxx='g++', flags=['-O1']),
    'fuzz': dict(cxx='clang++-14', flags=['-O1', '-fsanitize=fuzzer,address,undefined', '-fno-sanitize=object-size,pointer-overflow',
                                          '-fno-sanitize-recover=all']),
}

LIB_SOURCES = [
    'src/common/binary_stream_reader.cpp',
    'src/csv/csv_archive.cpp', 'src/csv/csv_readers.cpp', 'src/csv/csv_writers.cpp',
    'src/msgpack/msgpack_archive.cpp', 'src/msgpack/msgpack_readers.cpp', 'src/msgpack/msgpack_writers.cpp',
]


def _hash_files(h, paths):
    for p in sorted(paths):
        h.update(p.encode())
        with open(p, 'rb') as f:
            h.update(f.read())


def _lib_files():
    out = []
    for root in ('include', 'src/common', 'src/csv', 'src/msgpack'):
        for d, _, fs in os.walk(os.path.join(REPO, root)):
            for f in fs:
                if f.endswith(('.h', '.cpp', '.hpp')):
                    out.append(os.path.join(d, f))
    return out


_lib_hash_cache = {}


def lib_hash():
    if 'h' not in _lib_hash_cache:
        h = hashlib.sha256()
        _hash_files(h, _lib_files())
        _lib_hash_cache['h'] = h.hexdigest()
    return _lib_hash_cache['h']


def _run(cmd, log):
    env = dict(os.environ)
    env['CCACHE_DIR'] = os.path.join(BUILD, 'ccache')
    env['CCACHE_BASEDIR'] = '/'
    p = subprocess.run(cmd, stdout=subprocess.PIPE, stderr=subprocess.STDOUT, env=env)
    if p.returncode != 0:
        with open(log, 'ab') as f:
            f.write((' '.join(cmd) + '\n').encode())
            f.write(p.stdout)
        return p.stdout.decode(errors='replace')
    return None


def _use_ccache():
    return shutil.which('ccache') is not None and os.environ.get('VERIF_NO_CCACHE') != '1'


def _compile_many(jobs, log):
    """jobs: list of (cmd, outfile). Returns error text or None."""
    jobs = [j for j in jobs if not os.path.exists(j[1])]
    if not jobs:
        return None
    errs = []
    with ThreadPoolExecutor(max_workers=min(16, len(jobs))) as ex:
        for e in ex.map(lambda j: _run(j[0], log), jobs):
            if e:
                errs.append(e)
    return '\n'.join(errs) if errs else None


def _prune(prefix, keep):
    if not os.path.isdir(BUILD):
        return
    for d in os.listdir(BUILD):
        if d.startswith(prefix + '-') and d != keep:
            shutil.rmtree(os.path.join(BUILD, d), ignore_errors=True)


class BuildError(Exception):
    pass


def build(driver, variant, sources, extra_flags=(), libs=('-lpugixml',), need_lib=True, quiet=False):
    """Build harness/<sources> (+ library sources) under `variant`; returns path of the executable."""
    v = VARIANTS[variant]
    flags = COMMON + v['flags'] + list(extra_flags)
    h = hashlib.sha256()
    h.update(lib_hash().encode())
    hs = [os.path.join(HARNESS, f) for f in os.listdir(HARNESS) if f.endswith('.h')]
    _hash_files(h, hs + [os.path.join(HARNESS, s) for s in sources])
    h.update(repr((v['cxx'], flags, libs, need_lib)).encode())
    key = h.hexdigest()[:20]
    name = 'drv-%s-%s' % (driver, variant)
    d = os.path.join(BUILD, name + '-' + key)
    exe = os.path.join(d, driver)
    if os.path.exists(exe):
        return exe
    t0 = time.time()
    os.makedirs(d, exist_ok=True)
    os.makedirs(os.path.join(BUILD, 'ccache'), exist_ok=True)
    _prune(name, name + '-' + key)
    log = os.path.join(d, 'build.log')
    cxx = ([] if not _use_ccache() else ['ccache']) + [v['cxx']]
    inc = ['-I' + os.path.join(REPO, 'include'), '-I' + os.path.join(REPO, 'src'), '-I' + HARNESS]
    jobs = []
    objs = []
    for s in sources:
        o = os.path.join(d, os.path.basename(s) + '.o')
        objs.append(o)
        jobs.append((cxx + flags + inc + ['-c', os.path.join(HARNESS, s), '-o', o], o))
    if need_lib:
        for s in LIB_SOURCES:
            o = os.path.join(d, 'lib_' + os.path.basename(s) + '.o')
            objs.append(o)
            jobs.append((cxx + flags + inc + ['-c', os.path.join(REPO, s), '-o', o], o))
    if not quiet:
        print('[build] %s (%s): compiling %d TUs ...' % (driver, variant, len(jobs)), file=sys.stderr, flush=True)
    err = _compile_many(jobs, log)
    if err:
        raise BuildError('compile failed for %s/%s:\n%s' % (driver, variant, err[-6000:]))
    tmp = exe + '.tmp'
    err = _run([v['cxx']] + flags + objs + ['-o', tmp] + list(libs) + ['-ldl'], log)
    if err:
        raise BuildError('link failed for %s/%s:\n%s' % (driver, variant, err[-6000:]))
    os.rename(tmp, exe)
    for o in objs:
        try:
            os.remove(o)
        except OSError:
            pass
    if not quiet:
        print('[build] %s (%s): done in %.1fs' % (driver, variant, time.time() - t0), file=sys.stderr, flush=True)
    return exe
