"""Verdict bookkeeping, known-finding matching, evidence writing, driver running."""
import hashlib
import json
import os
import subprocess
import sys
import time
from concurrent.futures import ThreadPoolExecutor

VERIF = os.path.dirname(os.path.dirname(os.path.abspath(__file__)))
EVIDENCE = os.environ.get('VERIF_EVIDENCE_DIR') or os.path.join(VERIF, 'evidence')      # override: seeded-mutant evaluation must not clobber the committed evidence
REPLAY = os.path.join(EVIDENCE, 'replay')
KNOWN = os.path.join(VERIF, 'known_findings.json')

NCPU = min(16, os.cpu_count() or 4)


def seed_from_env():
    try:
        return int(os.environ.get('VERIF_SEED', '1'))
    except ValueError:
        return int(hashlib.sha256(os.environ['VERIF_SEED'].encode()).hexdigest()[:12], 16)


def mix(seed, *salt):
    h = hashlib.sha256(repr((seed,) + salt).encode()).digest()
    return int.from_bytes(h[:8], 'little')


def load_known():
    with open(KNOWN) as f:
        return json.load(f)['findings']


class Check:
    """One run of one property check."""

    def __init__(self, pid, tier, level, rule, assumptions=()):
        self.pid = pid
        self.tier = tier
        self.level = level
        self.rule = rule
        self.seed = seed_from_env()
        self.assumptions = list(assumptions)
        self.t0 = time.time()
        self.evaluations = 0
        self.distinct = set()
        self.samples = []
        self.cov = {}
        self.violations = {}      # key -> list of witnesses
        self.viol_count = {}
        self.inconclusive = []
        self.exhaustive = False
        self.harness_errors = []
        self.known = [k for k in load_known() if k['property'] == pid]

    # ---- counting
    def case(self, digest=None, nontrivial=True, n=1):
        self.evaluations += n
        if nontrivial and digest is not None:
            if len(self.distinct) < 2_000_000:
                self.distinct.add(digest if isinstance(digest, (int, bytes)) else hashlib.blake2b(
                    str(digest).encode(), digest_size=8).digest())

    def add_counts(self, evaluations, distinct_nontrivial_digests=()):
        self.evaluations += evaluations
        for d in distinct_nontrivial_digests:
            self.distinct.add(d)

    def sample(self, obj, limit=8):
        if len(self.samples) < limit:
            self.samples.append(obj)

    def count(self, name, k=1):
        self.cov[name] = self.cov.get(name, 0) + k

    def observe(self, name, value, cap=400):
        s = self.cov.setdefault(name, [])
        if value not in s and len(s) < cap:
            s.append(value)

    # ---- verdicts
    def violation(self, key, witness, what=''):
        """key: specific class of the failure (call site / input class); witness: dict written to a replay file."""
        self.viol_count[key] = self.viol_count.get(key, 0) + 1
        lst = self.violations.setdefault(key, [])
        if len(lst) < 3:
            w = dict(witness)
            w.setdefault('what', what)
            lst.append(w)

    def inconc(self, why, witness=None):
        if len(self.inconclusive) < 50:
            self.inconclusive.append({'why': why, 'witness': witness})
        self.count('inconclusive')

    def harness_error(self, msg):
        self.harness_errors.append(msg)

    # ---- finish
    def finish(self, min_nontrivial=2):
        os.makedirs(REPLAY, exist_ok=True)
        # clear old replay files of this property
        for f in os.listdir(REPLAY):
            if f.startswith(self.pid + '-'):
                try:
                    os.remove(os.path.join(REPLAY, f))
                except OSError:
                    pass
        known_by_key = {}
        for k in self.known:
            if k.get('status') == 'known':
                known_by_key[k['key']] = k
        new_keys = []
        seen_known = []
        for key, ws in sorted(self.violations.items()):
            kh = hashlib.sha1(key.encode()).hexdigest()[:10]
            paths = []
            for i, w in enumerate(ws):
                p = os.path.join(REPLAY, '%s-%s-%d.json' % (self.pid, kh, i))
                with open(p, 'w') as f:
                    json.dump({'property': self.pid, 'key': key, 'count_in_run': self.viol_count[key], 'witness': w}, f, indent=1, default=str)
                paths.append(p)
            if key in known_by_key:
                seen_known.append(key)
            else:
                new_keys.append((key, paths[0], ws[0].get('what', '')))
        for k in self.known:
            if k.get('status') != 'known':
                continue
            if k['key'] in seen_known:
                print('KNOWN-FINDING: property=%s %s [key=%s, %d witnesses in this run]' % (
                    self.pid, k['what'], k['key'], self.viol_count[k['key']]))
            else:
                print('KNOWN-FINDING: property=%s %s [key=%s, not reproduced in this run]' % (self.pid, k['what'], k['key']))
        for key, path, what in new_keys:
            print('VIOLATION property=%s replay=%s key=%s %s' % (self.pid, path, key, what))
        distinct = len(self.distinct)
        cov = {
            'evaluations': int(self.evaluations),
            'distinct_nontrivial': int(distinct),
            'rule': self.rule,
            'samples': self.samples if self.samples else ['(no sample recorded)'],
            'exhaustive': bool(self.exhaustive),
            'inconclusive_cases': self.inconclusive,
            'violation_keys': {k: self.viol_count[k] for k in self.violations},
            'known_findings_reproduced': seen_known,
        }
        for k, v in self.cov.items():
            cov[k] = v
        ev = {
            'property_id': self.pid,
            'tier': self.tier,
            'seed': self.seed,
            'level': self.level,
            'coverage': cov,
            'assumptions': self.assumptions,
            'wall_s': round(time.time() - self.t0, 2),
            'violations': len(new_keys),
        }
        os.makedirs(EVIDENCE, exist_ok=True)
        tmp = os.path.join(EVIDENCE, self.pid + '.json.tmp')
        with open(tmp, 'w') as f:
            json.dump(ev, f, indent=1, default=str)
        os.replace(tmp, os.path.join(EVIDENCE, self.pid + '.json'))
        print('[%s] tier=%s seed=%d evaluations=%d distinct_nontrivial=%d violations(new)=%d known=%d inconclusive=%d wall=%.1fs' % (
            self.pid, self.tier, self.seed, self.evaluations, distinct, len(new_keys), len(seen_known),
            self.cov.get('inconclusive', 0), time.time() - self.t0))
        if new_keys:
            return 1
        if self.harness_errors:
            for e in self.harness_errors[:5]:
                print('HARNESS-ERROR: ' + e[:2000], file=sys.stderr)
            return 2
        if distinct < min_nontrivial or self.evaluations < 1:
            print('HARNESS-ERROR: run observed too few non-trivial cases (%d < %d)' % (distinct, min_nontrivial), file=sys.stderr)
            return 2
        if self.evaluations and self.cov.get('inconclusive', 0) > max(2, self.evaluations // 1000):
            print('HARNESS-ERROR: too many inconclusive cases', file=sys.stderr)
            return 2
        return 0


def sanitizer_env(variant, extra=None):
    env = dict(os.environ)
    env['ASAN_OPTIONS'] = 'abort_on_error=0:exitcode=77:detect_leaks=1:detect_stack_use_after_return=1:allocator_may_return_null=0:max_allocation_size_mb=3072:handle_abort=1:print_summary=1'
    env['UBSAN_OPTIONS'] = 'print_stacktrace=1:halt_on_error=1:exitcode=76'
    env['LSAN_OPTIONS'] = 'exitcode=75'
    env['TSAN_OPTIONS'] = 'halt_on_error=0:second_deadlock_stack=1:exitcode=66'
    if extra:
        env.update(extra)
    return env


def _limit_cpu(seconds):
    import resource

    def f():
        resource.setrlimit(resource.RLIMIT_CPU, (seconds, seconds + 5))
        resource.setrlimit(resource.RLIMIT_CORE, (0, 0))
    return f


def run_driver(exe, lines, variant='asan', args=(), timeout=3600, env_extra=None, cpu_limit=None):
    """Feed case lines to one driver process; returns (list of parsed JSON events, stderr text, returncode).
    The process runs under RLIMIT_CPU (CPU seconds, so a loaded machine cannot produce a false hang)."""
    inp = ('\n'.join(lines) + '\n').encode()
    if cpu_limit is None:
        cpu_limit = 120 + len(lines) // 2
    p = subprocess.run([exe] + list(args), input=inp, stdout=subprocess.PIPE, stderr=subprocess.PIPE,
                       env=sanitizer_env(variant, env_extra), timeout=timeout, preexec_fn=_limit_cpu(cpu_limit))
    if p.returncode in (-24, -9) and b'runtime error' not in p.stderr:
        p = subprocess.CompletedProcess(p.args, p.returncode, p.stdout, p.stderr + b'\nVH-CPU-LIMIT-EXCEEDED\n')
    events = []
    bad = 0
    for ln in p.stdout.split(b'\n'):
        if not ln.strip():
            continue
        try:
            events.append(json.loads(ln))
        except ValueError:
            bad += 1
    return events, p.stderr.decode(errors='replace'), p.returncode, bad


def run_driver_parallel(exe, lines, variant='asan', args=(), workers=None, timeout=3600, env_extra=None, chunk=None):
    """Split case lines over worker processes; event order within a chunk is preserved; returns concatenated events."""
    workers = workers or NCPU
    if not lines:
        return [], '', 0, 0
    if chunk is None:
        chunk = max(1, (len(lines) + workers * 4 - 1) // (workers * 4))
    chunks = [lines[i:i + chunk] for i in range(0, len(lines), chunk)]
    events, errs, rc, bad = [], [], 0, 0
    with ThreadPoolExecutor(max_workers=workers) as ex:
        for ev, err, r, b in ex.map(lambda c: run_driver(exe, c, variant, args, timeout, env_extra), chunks):
            events.extend(ev)
            if err.strip():
                errs.append(err)
            if r != 0:
                rc = r
            bad += b
    return events, '\n'.join(errs), rc, bad


def _line_id(line):
    for tok in line.split():
        if tok.startswith('id='):
            return tok[3:]
    return None


def summarize_sanitizer(err):
    """Stable short key for a sanitizer / crash report on stderr."""
    import re
    m = re.search(r'([\w/\.\-]+):(\d+):\d+: runtime error: ([^\n]*)', err)
    if m:
        msg = re.sub(r'-?\d[\d\.e\+]*', 'N', m.group(3))[:80]
        return 'ubsan:%s:%s' % (os.path.basename(m.group(1)), msg)
    m = re.search(r'ERROR: AddressSanitizer: ([\w\-]+)', err)
    if m:
        fr = re.search(r'#\d+ 0x[0-9a-f]+ in ([^\s(]+)[^\n]*?(/repo/[^\s:]+|/usr/include/[^\s:]+)', err)
        return 'asan:%s:%s' % (m.group(1), (fr.group(1)[:60] if fr else '?'))
    if 'VH-CPU-LIMIT-EXCEEDED' in err:
        return 'hang'
    m = re.search(r'VH-TERMINATE ([^\n]*)', err)
    if m:
        return 'terminate:' + m.group(1).strip()
    if 'LeakSanitizer' in err:
        return 'leak'
    m = re.search(r'Assertion `([^\']*)\' failed', err)
    if m:
        return 'assert:' + m.group(1)[:60]
    return 'crash'


def run_cases(exe, lines, variant='asan', args=(), workers=None, timeout=3600, env_extra=None, chunk=None):
    """Runs id-tagged case lines; returns (events_by_id, crashes) where crashes = [(line, key, stderr_tail, rc)].
    A chunk whose process dies is re-run line by line so that every crash has a one-case witness."""
    events, err, rc, bad = run_driver_parallel(exe, lines, variant, args, workers, timeout, env_extra, chunk)
    by_id = {}
    for e in events:
        if isinstance(e, dict) and 'id' in e:
            by_id[e['id']] = e
    crashes = []
    missing = [ln for ln in lines if _line_id(ln) not in by_id]
    if missing:
        def one(ln):
            try:
                ev, er, r, b = run_driver(exe, [ln], variant, args, timeout, env_extra, cpu_limit=60)
            except subprocess.TimeoutExpired:
                return ln, None, 'timeout', -1
            return ln, (ev[0] if ev else None), er, r
        with ThreadPoolExecutor(max_workers=workers or NCPU) as ex:
            for ln, ev, er, r in ex.map(one, missing[:2000]):
                if ev is not None and r == 0:
                    by_id[ev['id']] = ev
                else:
                    crashes.append((ln, summarize_sanitizer(er), er[-3000:], r))
    return by_id, crashes
