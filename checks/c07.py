"""C07  MsgPack reader accepts every valid encoding and matches a reference decoder."""
import json
import random

from vlib import core
from checks import doccommon as D
from oracles import msgpack_ref as M
from oracles import shapes as S

PID = 'C07'


def prebuild():
    D.build_doc('asan')


def chooser(rng, level):
    def pick(kind, opts):
        if level == 0:
            return opts[0]
        if level == 1:
            return rng.choice(opts)
        return opts[-1] if rng.random() < 0.7 else rng.choice(opts)     # adversarial: widest
    return pick


SRCS = [dict(src='mem'), dict(src='sstream'), dict(src='slow', step=1), dict(src='slow', step=7), dict(src='slow', step=255), dict(src='noseek', step=3)]


def run(tier):
    ck = core.Check(PID, tier, 'exploration',
                    'values generated from the type shapes in the checker, encoded by an independent encoder that picks any legal format '
                    '(fixint / uint8..64 / int8..64, fixstr / str8/16/32, fixarray / array16/32, fixmap / map16/32, float32 vs float64, bool vs 0/1, '
                    'bin vs array of integers, timestamp 32/64/96 in fixext / ext8 / ext16 / ext32, any member order, unknown members, nil members), '
                    'loaded from memory and from stream kinds into the typed targets: loaded value must equal the generated value; every strict '
                    'prefix and every single-byte corruption that the reference decoder rejects must raise an exception. '
                    'distinct non-trivial = distinct (type, document bytes, source kind)',
                    ['oracles/msgpack_ref.py follows the MessagePack specification', 'timestamp 96 documents are produced in the layout of the specification'])
    exe = D.build_doc('asan')
    rng = random.Random(core.mix(ck.seed, 'c07'))
    q = tier == 'quick'
    types = [t for t in D.TYPES['msgpack']]
    lines = [D.case_line('shape', 'msgpack', t, 'sh_' + t) for t in types]
    by, crashes = core.run_cases(exe, lines, 'asan')
    shapes = {i[3:]: e['shape'] for i, e in by.items()}
    n = 120 if q else 6000
    lines, meta = [], {}
    k = 0
    docs = []
    ctx = {'nonfinite': True, 'big': True, 'maxsize': 4, 'dupkeys': False}
    # Timestamp 96: the library reads and writes seconds before nanoseconds (recorded finding of C06/C07). The bulk of the documents is
    # produced in that layout so that everything else is still checked over the full range of instants; documents in the layout of the
    # specification are produced for r_tpms / r_durs below and must surface as the recorded finding.
    M.TS96_SECONDS_FIRST = True
    spec_cases = []
    for t, vals in (('r_tpms', [{'tp': -1}, {'tp': -1001}, {'tp': (1 << 34) * 1000 + 5}]), ('r_durs', [{'dur': -1}, {'dur': 1 << 40}])):
        for val in vals:
            M.TS96_SECONDS_FIRST = False
            raw = M.encode(S.mp_tree(val, shapes[t]))
            M.TS96_SECONDS_FIRST = True
            cid = 'c%d' % k
            k += 1
            line = D.case_line('load', 'msgpack', t, cid, doc=raw.hex(), src='mem')
            lines.append(line)
            meta[cid] = ('ts96spec', t, val, raw, line, {'src': 'mem'})
    for raw in (bytes.fromhex('d7ff') + ((0x3fffffff << 34) | 5).to_bytes(8, 'big'), bytes.fromhex('c70cff') + (7).to_bytes(8, 'big', signed=True) + (0xffffffff).to_bytes(4, 'big')):
        cid = 'c%d' % k
        k += 1
        line = D.case_line('load', 'msgpack', 'r_tpms', cid, doc=raw.hex(), nodesc=1, src='mem')
        lines.append(line)
        meta[cid] = ('corrupt', 'r_tpms', None, raw, line, {'src': 'mem'})
    for t in types:
        sh = shapes[t]
        for j in range(n * (3 if t == 'zoo' else 1)):
            val = S.rand_value(sh, rng, ctx)
            opts = {'nil': rng.random() < 0.3, 'absent': rng.random() < 0.2, 'unknown': rng.random() < 0.3, 'shuffle': rng.random() < 0.6, 'bin_as_array': True}
            tree, exp = S.mp_variant(val, sh, rng, opts)
            level = rng.choice([0, 1, 1, 2])
            raw = M.encode(tree, chooser(rng, level))
            # the reference decoder must read back what the reference encoder wrote
            try:
                back = M.decode(raw, strict_utf8=True)
                if S.mp_equal(back, tree) is not None:
                    ck.harness_error('reference codec self-check failed for %s' % t)
            except M.MsgPackError as e:
                ck.harness_error('reference codec self-check failed for %s: %s' % (t, e))
            src = rng.choice(SRCS)
            cid = 'c%d' % k
            k += 1
            line = D.case_line('load', 'msgpack', t, cid, doc=raw.hex(), **src)
            lines.append(line)
            meta[cid] = ('valid', t, exp, raw, line, src)
            if len(raw) <= 300 and rng.random() < (0.5 if q else 0.3):
                docs.append((t, raw, exp))
    # truncations and corruptions of a sample of documents
    rng.shuffle(docs)
    nd = 400 if q else 12000
    for t, raw, exp in docs[:nd]:
        cuts = list(range(len(raw))) if len(raw) <= 64 or not q else sorted(rng.sample(range(len(raw)), 64))
        for c in cuts:
            src = rng.choice(SRCS[:5])
            cid = 'c%d' % k
            k += 1
            line = D.case_line('load', 'msgpack', t, cid, doc=raw[:c].hex(), nodesc=1, **src)
            lines.append(line)
            meta[cid] = ('prefix', t, None, raw[:c], line, src)
        for _ in range(min(len(raw), 24 if q else 200)):
            pos = rng.randrange(len(raw))
            nb = rng.choice([0x00, 0xff, 0xc0, 0xc1, 0x80, 0x90, 0xa0, 0xc4, 0xd9, 0xdc, 0xde, 0xca, 0xcb, 0xd6, 0xc7, raw[pos] ^ (1 << rng.randrange(8)), rng.randrange(256)])
            if nb == raw[pos]:
                continue
            bad = raw[:pos] + bytes([nb]) + raw[pos + 1:]
            src = rng.choice(SRCS[:5])
            cid = 'c%d' % k
            k += 1
            line = D.case_line('load', 'msgpack', t, cid, doc=bad.hex(), nodesc=1, **src)
            lines.append(line)
            meta[cid] = ('corrupt', t, None, bad, line, src)
    # the never-used byte code 0xC1 at every position of small documents (found by the thorough tier inside skipped unknown members)
    small = [d for d in docs if len(d[1]) <= 150][:80 if q else 3000]
    for t, raw, exp in small:
        for pos in range(len(raw)):
            if raw[pos] == 0xc1:
                continue
            bad = raw[:pos] + b'\xc1' + raw[pos + 1:]
            src = rng.choice(SRCS[:5])
            cid = 'c%d' % k
            k += 1
            line = D.case_line('load', 'msgpack', t, cid, doc=bad.hex(), nodesc=1, **src)
            lines.append(line)
            meta[cid] = ('corrupt', t, None, bad, line, src)
    # ... and as the value of an extra member that no target loads (the position where the thorough tier found it accepted)
    nextra = 0
    for t, raw, exp in docs:
        if raw and 0x80 <= raw[0] <= 0x8e and nextra < (300 if q else 20000):
            nextra += 1
            for tail in (b'\xa2zz\xc1', b'\xa2zz\x91\xc1', b'\xa2zz\x81\xa1k\xc1'):
                bad = bytes([raw[0] + 1]) + raw[1:] + tail
                src = rng.choice(SRCS[:5])
                cid = 'c%d' % k
                k += 1
                line = D.case_line('load', 'msgpack', t, cid, doc=bad.hex(), nodesc=1, **src)
                lines.append(line)
                meta[cid] = ('corrupt', t, None, bad, line, src)
    by, crashes = core.run_cases(exe, lines, 'asan')
    for ln, key, err, rc in crashes:
        cid = core._line_id(ln)
        kind = meta[cid][0] if cid in meta else '?'
        ck.violation('crash/%s/%s' % (kind, key), {'driver': 'drv_doc', 'variant': 'asan', 'case': ln[:400000], 'stderr': err[-1500:]}, 'process died while loading a %s document: %s' % (kind, key))
    stats = {}
    for cid, e in by.items():
        kind, t, exp, raw, line, src = meta[cid]
        if 'error' in e:
            ck.harness_error(e['error'])
            continue
        stats[kind + ':' + e['out'] + (':' + e.get('code', '') if e['out'] != 'ok' else '')] = stats.get(kind + ':' + e['out'] + (':' + e.get('code', '') if e['out'] != 'ok' else ''), 0) + 1
        wit = {'driver': 'drv_doc', 'variant': 'asan', 'case': line[:400000], 'event': {kk: str(vv)[:1500] for kk, vv in e.items()}}
        ck.case((t, raw[:64], len(raw), src.get('src')), nontrivial=True)
        if kind == 'ts96spec':
            if e['out'] != 'ok' or S.canon(e['desc'], shapes[t]) != S.canon(exp, shapes[t]):
                ck.violation('timestamp96/seconds-before-nanoseconds', wit, 'timestamp 96 in the layout of the specification (nanoseconds, seconds) is not loaded as the instant it denotes (%s -> %s)' % (json.dumps(exp), json.dumps(e.get('desc', e.get('exc')))))
            continue
        if kind == 'valid':
            if e['out'] != 'ok':
                if src.get('src') == 'noseek' and e.get('exc') in ('SerializationException', 'ParsingException'):
                    ck.count('noseek_needs_seek')     # forward-only stream cannot serve map enumeration / out-of-order members (C10 reports it)
                    continue
                ck.violation('valid-rejected/%s/%s:%s' % (t, e.get('exc'), e.get('code')), wit, 'well-formed encoding of %s rejected: %s %s' % (t, e.get('exc'), e.get('what')))
                continue
            got = S.canon(e['desc'], shapes[t])
            want = S.canon(exp, shapes[t])
            if got != want:
                d = D.first_diff(want, got) or '?'
                import re
                ck.violation('valid-differs/%s/%s' % (t, re.sub(r'/o/', '/', d)), dict(wit, expected=json.dumps(want)[:1500]), 'well-formed encoding of %s loaded to a different value at %s' % (t, d))
            elif len(ck.samples) < 6 and rng.random() < 0.01:
                ck.sample({'type': t, 'doc': raw.hex()[:160], 'source': src, 'loaded_equals_generated_value': True})
        elif kind == 'prefix':
            if e['out'] == 'ok':
                ck.violation('prefix-accepted/%s' % t, wit, 'strict prefix (%d bytes) of a %s document accepted' % (len(raw), t))
        else:
            try:
                M.decode(raw, strict_utf8=False, allow_trailing=True)
                illformed = False
            except M.MsgPackError as ex:
                illformed = True
                why = str(ex)
            if illformed and e['out'] == 'ok':
                if 'nanoseconds out of range' in why:
                    ck.violation('illformed-accepted/timestamp-nanoseconds-above-999999999', wit, 'timestamp with more than 999999999 nanoseconds accepted (%s) for %s' % (why, t))
                else:
                    ck.violation('illformed-accepted/%s/%s' % (t, why.split(' ')[0]), wit, 'ill-formed document (%s) accepted for %s' % (why, t))
    M.TS96_SECONDS_FIRST = False
    ck.cov['outcomes'] = stats
    ck.cov['source_kinds'] = [json.dumps(s) for s in SRCS]
    from checks import c03
    c03.int_key_cases(ck, rng, 4000 if tier == 'quick' else 300000)
    return ck.finish(min_nontrivial=1000)


def replay(w):
    wit = w['witness']
    exe = D.build_doc(wit.get('variant', 'asan'))
    ev, err, rc, bad = core.run_driver(exe, [wit['case']], wit.get('variant', 'asan'))
    print(ev, err[-2000:])
    return 0
