"""C13  Encoded text streams: encoding detection, BOM and chunked decoding are lossless."""
import random

from vlib import core
from checks import utfcommon as UC
from oracles import shapes as S

PID = 'C13'
ENC_PY = {'utf8': 'utf-8', 'utf16le': 'utf-16-le', 'utf16be': 'utf-16-be', 'utf32le': 'utf-32-le', 'utf32be': 'utf-32-be'}
BOMS = {'utf8': b'\xef\xbb\xbf', 'utf16le': b'\xff\xfe', 'utf16be': b'\xfe\xff', 'utf32le': b'\xff\xfe\x00\x00', 'utf32be': b'\x00\x00\xfe\xff'}
WIDTH_PY = {1: 'utf-8', 2: 'utf-16-le', 4: 'utf-32-le'}
UNIT = {'utf8': 1, 'utf16le': 2, 'utf16be': 2, 'utf32le': 4, 'utf32be': 4}


def prebuild():
    UC.build_utf('asan')


def rand_text(rng, chunk, ascii_first, allow_nul=False):
    """Text whose multi-unit characters fall on every offset relative to the chunk size."""
    ctx = {'nonul': not allow_nul}
    r = rng.random()
    if r < 0.1:
        n = rng.randrange(0, 4)
    elif r < 0.7:
        n = rng.choice([chunk // 4, chunk // 2, chunk, 2 * chunk]) + rng.randrange(-5, 6)
    else:
        n = rng.randrange(0, 3 * chunk + 9)
    n = max(0, n)
    pad = rng.randrange(0, min(n, chunk + 5) + 1)
    body = ''.join(chr(S.rand_cp(rng, ctx)) if rng.random() < 0.6 else chr(rng.choice([0x10000, 0x10FFFF, 0x1F600, 0x7FF, 0x800, 0xFFFD, 0xE9])) for _ in range(n - pad))
    text = ''.join(chr(rng.randrange(0x21, 0x7F)) for _ in range(pad)) + body
    if ascii_first and (not text or not (0 < ord(text[0]) < 0x80)):
        text = chr(rng.randrange(0x21, 0x7F)) + text
    return text


def run(tier):
    ck = core.Check(PID, tier, 'exploration',
                    'reader: random texts (lengths around 1/4, 1/2, 1, 2, 3 reader buffers, ASCII prefix of every length 0..buffer+4 followed by 2/3/4-byte and surrogate-pair '
                    'characters so that every alignment of a multi-unit character to the buffer boundary occurs) are encoded by CPython codecs in the 5 encodings, '
                    'with a BOM always and without a BOM when the text starts with an ASCII character, and read through CEncodedStreamReader with 32-, 64- and '
                    '256-byte buffers into char / char16_t / char32_t targets from stringstream and short-read streambufs (1..300 bytes per call): detected type, '
                    'decoded text == original, the result sequence ends with EndFile without a spin. Cut streams: every prefix length of encoded texts '
                    '(mid-unit, mid-pair, mid-sequence) under Skip (one or more marks after a correct prefix, never a hang or silent loss) and ThrowError '
                    '(DecodeError). DetectEncoding (memory and stream overloads incl. restored / BOM-skipped position). writer: CEncodedStreamWriter in 5 '
                    'encodings x BOM from char / char16_t / char32_t input split into pieces at character boundaries == CPython encoding of the text, '
                    'BOM iff configured. distinct non-trivial = distinct (text, encoding, BOM, buffer size, target width, stream kind)',
                    ['BOM-less UTF-8 text containing U+0000 is a recorded finding (taken for UTF-16/32); it is generated rarely and classified'])
    exe = UC.build_utf('asan')
    q = tier == 'quick'
    rng = random.Random(core.mix(ck.seed, 'c13'))
    n = 30000 if q else 1500000
    lines, meta = [], {}
    for i in range(n):
        chunk = rng.choice([32, 32, 64, 256])
        enc = rng.choice(list(ENC_PY))
        bom = rng.random() < 0.5
        nul = rng.random() < 0.02 and (bom or enc == 'utf8')      # BOM-less UTF-16 text with U+0000 is byte-identical to other UTF-32 text
        text = rand_text(rng, chunk // UNIT[enc], not bom, nul)
        raw = (BOMS[enc] if bom else b'') + text.encode(ENC_PY[enc])
        width = rng.choice([1, 2, 4])
        src = 'sstream' if rng.random() < 0.4 else 'slow'
        cid = 'r%d' % i
        pre = rng.choice([0, 0, 0, 1, 3, 4, 13, 255, 256, 257])
        if pre:
            raw = bytes(rng.randrange(256) for _ in range(pre)) + raw      # a preamble that the caller has consumed already
        line = 'op=encread id=%s doc=%s chunk=%d width=%d policy=%s src=%s step=%d pre=%d' % (cid, raw.hex(), chunk, width, rng.choice(['skip', 'throw']), src, rng.choice([1, 2, 3, 5, 31, 32, 33, 64, 300]), pre)
        lines.append(line)
        meta[cid] = ('read', text, enc, bom, width, chunk, line, len(raw))
    # cut streams: all prefix lengths of a few texts
    ncut = 60 if q else 2000
    for t in range(ncut):
        chunk = rng.choice([32, 64])
        enc = rng.choice(list(ENC_PY))
        text = rand_text(rng, chunk // UNIT[enc], True)[:rng.choice([6, 20, 40, 70])]
        full = BOMS[enc] + text.encode(ENC_PY[enc])
        for cut in range(len(BOMS[enc]) + 1, len(full)):
            if full[:cut] == (BOMS[enc] + text[:0].encode(ENC_PY[enc])):
                continue
            for pol in ('skip', 'throw'):
                cid = 'c%d_%d_%s' % (t, cut, pol)
                width = rng.choice([1, 2, 4])
                line = 'op=encread id=%s doc=%s chunk=%d width=%d policy=%s src=slow step=%d' % (cid, full[:cut].hex(), chunk, width, pol, rng.choice([1, 3, 32]))
                lines.append(line)
                meta[cid] = ('cut', text, enc, cut, width, pol, line, len(full))
    # detection
    for i in range(3000 if q else 200000):
        enc = rng.choice(list(ENC_PY))
        bom = rng.random() < 0.5
        text = rand_text(rng, 16, not bom)[:rng.choice([1, 1, 2, 3, 10, 200])]
        if not bom and not text:
            continue
        raw = (BOMS[enc] if bom else b'') + text.encode(ENC_PY[enc])
        cid = 'd%d' % i
        lines.append('op=detect id=%s doc=%s pre=%d' % (cid, raw.hex(), rng.choice([0, 0, 1, 3, 4, 13, 127, 128, 129, 300])))
        meta[cid] = ('detect', text, enc, bom, 0, 0, lines[-1], len(raw))
    # writer
    for i in range(n // 3):
        enc = rng.choice(list(ENC_PY))
        bom = rng.randrange(2)
        width = rng.choice([1, 2, 4])
        text = rand_text(rng, 32, False)
        pieces, pos = [], 0
        src_units = []
        while pos < len(text):
            k = rng.choice([1, 1, 2, 5, 40, 1000])
            part = text[pos:pos + k]
            pos += k
            nunits = len(part.encode(WIDTH_PY[width])) // width
            pieces.append(nunits)
        if rng.random() < 0.1:
            pieces.insert(rng.randrange(len(pieces) + 1), 0)
        cid = 'w%d' % i
        lines.append('op=encwrite id=%s enc=%s bom=%d width=%d text=%s pieces=%s' % (cid, enc, bom, width, text.encode(WIDTH_PY[width]).hex(), ','.join(map(str, pieces))))
        meta[cid] = ('write', text, enc, bom, width, 0, lines[-1], 0)
    by, crashes = core.run_cases(exe, lines, 'asan')
    for ln, key, err, rc in crashes:
        ck.violation('crash/%s' % key, {'driver': 'drv_utf', 'variant': 'asan', 'case': ln[:400000], 'stderr': err[-1500:]}, 'process died: ' + key)
    align = set()
    hist = {}
    for cid, e in by.items():
        m = meta[cid]
        kind, text, enc, line = m[0], m[1], m[2], m[6]
        wit = {'driver': 'drv_utf', 'variant': 'asan', 'case': line[:400000], 'event': {k: str(v)[:1500] for k, v in e.items()}, 'text': text[:300]}
        if 'error' in e:
            ck.harness_error(e['error'])
            continue
        hist[kind] = hist.get(kind, 0) + 1
        if kind == 'read':
            bom, width, chunk = m[3], m[4], m[5]
            ck.case((kind, cid, enc, bom, width, chunk), nontrivial=True)
            align.add((enc, chunk, m[7] % chunk))
            want = text.encode(WIDTH_PY[width]).hex()
            cfg = '%s%s/chunk%d/w%d' % (enc, '-bom' if bom else '', chunk, width)
            if '!' in e['seq']:
                ck.violation('reader/no-progress/%s' % cfg, wit, 'ReadChunk kept returning Success without reaching the end')
                continue
            if e['type'] != enc or e['text'] != want or 'E' in e['seq'] or not e['end_after']:
                if not bom and enc == 'utf8' and '\0' in text:
                    ck.violation('reader/nobom-utf8/text-with-nul-misdetected', wit, 'BOM-less UTF-8 text containing U+0000 detected as %s' % e['type'])
                    continue
                why = 'detected-as-%s' % e['type'] if e['type'] != enc else 'decode-error' if 'E' in e['seq'] else 'not-at-end' if not e['end_after'] else 'text-differs'
                ck.violation('reader/%s/%s' % (why, cfg if why != 'text-differs' else cfg.split('/w')[0]), wit, '%s: %s (sequence %s)' % (cfg, why, e['seq']))
        elif kind == 'cut':
            cut, width, pol = m[3], m[4], m[5]
            ck.case((kind, cid), nontrivial=True)
            full = BOMS[enc] + text.encode(ENC_PY[enc])
            body = full[len(BOMS[enc]):cut]
            # longest prefix of complete characters
            good = body.decode(ENC_PY[enc], 'ignore') if False else None
            k = len(text)
            while k > 0 and len(text[:k].encode(ENC_PY[enc])) > len(body):
                k -= 1
            complete = len(text[:k].encode(ENC_PY[enc])) == len(body)
            prefix = text[:k].encode(WIDTH_PY[width]).hex()
            cfg = '%s/%s' % (enc, pol)
            if '!' in e['seq']:
                ck.violation('cut/no-progress/%s' % cfg, wit, 'stream cut at byte %d: reader spins' % cut)
                continue
            if complete:
                if e['text'] != prefix or 'E' in e['seq']:
                    ck.violation('cut/complete-prefix-misread/%s' % cfg, wit, 'stream cut at a character boundary (byte %d) is not read as the prefix' % cut)
                continue
            if not e['text'].startswith(prefix):
                ck.violation('cut/prefix-lost/%s' % cfg, wit, 'stream cut at byte %d: text before the cut is lost or altered' % cut)
                continue
            tail = e['text'][len(prefix):]
            if UNIT[enc] == width:
                # same code unit width: the reader hands the units over as they are (no transcoding), the incomplete sequence arrives unchanged
                rest = body[len(text[:k].encode(ENC_PY[enc])):]
                rest = rest[:len(rest) - len(rest) % width]
                native = b''.join(rest[j:j + width][::-1] if enc.endswith('be') else rest[j:j + width] for j in range(0, len(rest), width)).hex()
                if tail.startswith(native) or 'E' in e['seq']:
                    ck.count('cut_same_width_passthrough')
                    continue
            if pol == 'throw':
                if 'E' not in e['seq']:
                    ck.violation('cut/not-reported/%s' % cfg, wit, 'stream cut inside a character at byte %d under ThrowError: no DecodeError (sequence %s)' % (cut, e['seq']))
            else:
                mark = '\u2610'.encode(WIDTH_PY[width]).hex()      # the library's default error mark
                if 'E' in e['seq'] or tail == '' or tail.replace(mark, '') != '':
                    ck.violation('cut/no-mark/%s' % cfg, wit, 'stream cut inside a character at byte %d under Skip: tail %r (sequence %s), expected error mark(s)' % (cut, tail, e['seq']))
        elif kind == 'detect':
            bom = m[3]
            ck.case((kind, cid), nontrivial=True)
            raw_len = m[7]
            want_off = len(BOMS[enc]) if bom else 0
            cfg = '%s%s' % (enc, '-bom' if bom else '')
            if e['type'] != enc or e['stream_type'] != enc or e['stream_type_keep'] != enc:
                ck.violation('detect/type/%s-as-%s' % (cfg, e['type']), wit, 'DetectEncoding returned %s / %s for %s' % (e['type'], e['stream_type'], cfg))
            elif e['offset'] != want_off:
                ck.violation('detect/offset/%s' % cfg, wit, 'BOM size reported %d, expected %d' % (e['offset'], want_off))
            elif e['stream_pos'] != want_off or e['stream_pos_keep'] != 0:
                ck.violation('detect/stream-position/%s' % cfg, wit, 'stream position after detection %s (skip BOM) / %s (keep), expected %d / 0' % (e['stream_pos'], e['stream_pos_keep'], want_off))
        else:
            bom, width = m[3], m[4]
            ck.case((kind, cid), nontrivial=True)
            want = ((BOMS[enc] if bom else b'') + text.encode(ENC_PY[enc])).hex()
            if e['bytes'] != want or 'E' in e['codes']:
                got = bytes.fromhex(e['bytes'])
                why = 'bom' if got.startswith(BOMS[enc]) != bool(bom) and not (enc == 'utf16le' and got.startswith(BOMS['utf32le'])) else 'error-code' if 'E' in e['codes'] else 'bytes'
                ck.violation('writer/%s/%s/w%d' % (why, enc, width), dict(wit, expected=want[:1500]), 'CEncodedStreamWriter output differs from the %s encoding of the text (%s)' % (enc, why))
    ck.cov['cases_by_kind'] = hist
    ck.cov['distinct_alignments_encoding_buffer_length'] = len(align)
    return ck.finish(min_nontrivial=5000)


def replay(w):
    wit = w['witness']
    exe = UC.build_utf('asan')
    ev, err, rc, bad = core.run_driver(exe, [wit['case']], 'asan')
    print(ev, err[-2000:])
    return 0
