"""C15  ISO-8601 parsing either yields the denoted value or throws; it never wraps."""
import random
import re
from fractions import Fraction

from vlib import core
from checks import convcommon as C

PID = 'C15'

# name -> (bits, signed, seconds per unit as Fraction)
UNITS = {'ns': Fraction(1, 10 ** 9), 'us': Fraction(1, 10 ** 6), 'ms': Fraction(1, 1000), 's': Fraction(1), 'min': Fraction(60), 'h': Fraction(3600), 'days': Fraction(86400)}
TARGETS = {}
for n_, u_ in UNITS.items():
    TARGETS[n_] = (64, True, u_)
for n_, b_ in (('s32', 32), ('min32', 32), ('h32', 32), ('days32', 32)):
    TARGETS[n_] = (b_, True, UNITS[n_[:-2]])
TARGETS['su64'] = (64, False, Fraction(1))
TARGETS['s8'] = (8, True, Fraction(1))
TARGETS['msu64'] = (64, False, Fraction(1, 1000))
TARGETS['ms32'] = (32, True, Fraction(1, 1000))

DT_RE = re.compile(r'^([+-]?)([0-9]+)-([0-9]+)-([0-9]+)T([0-9]+):([0-9]+):([0-9]+)(?:[.,]([0-9]+))?Z(.*)$', re.S)


def prebuild():
    C.build_conv('ubsan')


def limits(bits, signed):
    return (-(1 << (bits - 1)), (1 << (bits - 1)) - 1) if signed else (0, (1 << bits) - 1)


def judge_value(res, whole_units_value, frac_seconds, unit, lo, hi):
    """whole_units_value: exact Fraction of (integral seconds part)/unit ; frac_seconds: Fraction in [0,1) (sign applied).
    Returns set of allowed outcome predicates evaluated against res ('ok:<int>' or 'exc:..')."""
    q = whole_units_value + frac_seconds / unit
    if whole_units_value.denominator != 1:
        return res == 'exc:out_of_range', 'whole-second part is not a multiple of the target unit: must be out_of_range'
    if res.startswith('ok:'):
        v = int(res[3:])
        if not (lo <= v <= hi):
            return False, 'returned value outside the target range'
        if abs(Fraction(v) - q) < 1:
            return True, ''
        return False, 'returned %d but the text denotes %s units' % (v, float(q) if abs(q) < 10 ** 300 else 'huge')
    if res == 'exc:out_of_range':
        # fine if the value does not fit, or is within one unit of a limit
        if q < lo + 1 or q > hi - 1:
            return True, ''
        return False, 'out_of_range for a representable value (%s units)' % (str(q) if q.denominator == 1 else float(q))
    return False, 'unexpected outcome for a well-formed text'


def eval_datetime(s):
    """-> ('invalid',) | ('unpinned', value or None) | ('value', whole_seconds:int, frac:Fraction) """
    m = DT_RE.match(s)
    if not m:
        return ('invalid',)
    sign, ys, mo, d, h, mi, sec, fr, rest = m.groups()
    y = int(ys) * (-1 if sign == '-' else 1)
    mo, d, h, mi, sec = int(mo), int(d), int(h), int(mi), int(sec)
    unpinned = bool(rest) or len(m.group(3)) != 2 or len(m.group(4)) != 2 or len(m.group(5)) != 2 or len(m.group(6)) != 2 or len(m.group(7)) != 2 \
        or len(ys) < 4 or (sign == '+' and len(ys) == 4) or (fr is not None and len(fr) > 9) or (sign == '-' and y == 0) or (len(ys) > 4 and ys[0] == '0') or (sign == '' and len(ys) > 4)
    if not (1 <= mo <= 12) or not (1 <= d <= C.days_in_month(y, mo)) or h > 23 or mi > 59 or sec > 59:
        return ('invalid',) if not unpinned else ('unpinned', None)
    whole = C.days_from_civil(y, mo, d) * 86400 + h * 3600 + mi * 60 + sec
    frac = Fraction(int(fr), 10 ** len(fr)) if fr else Fraction(0)
    if unpinned:
        return ('unpinned', (whole, frac))
    return ('value', whole, frac)


DUR_RE = re.compile(r'^([+-]?)P(?:([0-9]+)W)?(?:([0-9]+)D)?(?:T(?:([0-9]+)H)?(?:([0-9]+)M)?(?:([0-9]+)(?:[.,]([0-9]+))?S)?)?$')


def eval_duration(s):
    m = DUR_RE.match(s)
    if not m:
        # classify the documented error classes; everything else is 'invalid' when clearly outside the grammar
        if re.match(r'^[+-]?P[0-9WDTHMS.,YM]*$', s) and (re.search(r'[0-9]Y', s) or re.search(r'^[+-]?P[^T]*[0-9]M', s)):
            return ('invalid',)      # years / months in durations
        if re.match(r'^[+-]?P(?:[0-9]+W)?(?:[0-9]+D)?T?[0-9HMS]*[0-9]+[.,][0-9]+[HMWD]', s) or re.match(r'^[+-]?P[0-9]+[.,][0-9]+[WD]', s):
            return ('invalid',)      # fraction outside the seconds part
        if not s.lstrip('+-').startswith('P') or len(s) < 3:
            return ('invalid',)
        return ('unpinned', None)
    sign, w, d, h, mi, sec, fr = m.groups()
    if all(x is None for x in (w, d, h, mi, sec)):
        return ('invalid',)
    if s.endswith('T'):
        return ('unpinned', None)
    comps = []
    for val, mult in ((w, 604800), (d, 86400), (h, 3600), (mi, 60), (sec, 1)):
        if val is not None:
            comps.append(int(val) * mult)
    frac = Fraction(int(fr), 10 ** len(fr)) if fr else Fraction(0)
    unp = (fr is not None and len(fr) > 9) or sign == '+'
    sg = -1 if sign == '-' else 1
    return ('unpinned' if unp else 'value', [sg * c for c in comps], sg * frac, sign == '-')


def gen_datetime(rng):
    r = rng.random()
    y = rng.choice([1970, 1969, 2024, 2000, 1900, 2100, 1, 0, -1, 9999, 10000, -10000, 1677, 1678, 2262, 2263, 1901, 2038, 292277026596, -292277022657,
                    25252734927768524, -25252734927764585, 5881580, -5877641, 10 ** 17, 2 ** 63 - 1, 2 ** 63, 2 ** 64, -2 ** 63, -2 ** 63 - 1, 10 ** 25]) if r < 0.5 else rng.randrange(-12000, 12000)
    if rng.random() < 0.2:
        y = rng.randrange(-3 * 10 ** 16, 3 * 10 ** 16)
    mo = rng.choice([1, 2, 2, 3, 4, 6, 9, 11, 12, 0, 13, 99]) if rng.random() < 0.5 else rng.randrange(1, 13)
    d = rng.choice([1, 28, 29, 30, 31, 0, 32, 99]) if rng.random() < 0.6 else rng.randrange(1, 29)
    h = rng.choice([0, 23, 24, 12, 99]) if rng.random() < 0.4 else rng.randrange(24)
    mi = rng.choice([0, 59, 60, 99]) if rng.random() < 0.3 else rng.randrange(60)
    sec = rng.choice([0, 59, 60, 61, 99]) if rng.random() < 0.3 else rng.randrange(60)
    ys = '%04d' % abs(y)
    if y < 0:
        ys = '-' + ys
    elif y > 9999:
        ys = '+' + ys
    s = '%s-%02d-%02dT%02d:%02d:%02d' % (ys, mo, d, h, mi, sec)
    if rng.random() < 0.45:
        nd = rng.choice([1, 2, 3, 3, 4, 6, 6, 7, 9, 9, 10, 12])
        fr = ''.join(rng.choice('0123456789') for _ in range(nd))
        if rng.random() < 0.2:
            fr = rng.choice(['9' * nd, '0' * nd, '5' + '0' * (nd - 1), '4' + '9' * (nd - 1), '999999999', '000000001', '9995', '9999995'])
        s += rng.choice('..,') + fr
    s += 'Z'
    # mutations
    k = rng.random()
    if k < 0.08:
        s = s[:-1]                                   # missing Z
    elif k < 0.12:
        s = s[:-1] + rng.choice(['z', '+00:00', ' Z', 'ZZ', 'Z ', 'Zx'])
    elif k < 0.16:
        p = rng.randrange(len(s))
        s = s[:p] + rng.choice(['', 'x', ' ', '-', '0', 'T', ':', '\x00', 'é']) + s[p + (1 if rng.random() < 0.5 else 0):]
    elif k < 0.2:
        s = rng.choice(['+-', '-+', '++', '--', '+ ', '- ', '+x', '-.']) + s.lstrip('+-')      # malformed sign in front of the year
    elif k < 0.24 and s:
        # a non-ASCII character whose low byte is the expected ASCII character (U+0439 for '9', U+0154 for 'T'): must not be taken for it in any string width
        p = rng.randrange(len(s))
        s = s[:p] + chr(ord(s[p]) + 0x100 * rng.choice([1, 2, 4, 0x20, 0x30, 0xFF])) + s[p + 1:]
    elif k < 0.26:
        s = rng.choice(['', 'Z', 'T', '2024', '2024-01-01', '2024-01-01T00:00Z', '2024-01-01 00:00:00Z', '20240101T000000Z', '2024-1-1T0:0:0Z', '99-01-01T00:00:00Z',
                        '+2024-01-01T00:00:00Z', '-0000-01-01T00:00:00Z', '02024-01-01T00:00:00Z', '12345-01-01T00:00:00Z', '2024-01-01T00:00:00.Z', '2024-01-01T00:00:00.5.5Z'])
    return s


def gen_duration(rng):
    def num():
        r = rng.random()
        if r < 0.5:
            return rng.randrange(0, 100)
        if r < 0.7:
            return rng.choice([0, 1, 59, 60, 61, 3600, 86400, 2 ** 31 - 1, 2 ** 31, 2 ** 32, 2 ** 63 - 1, 2 ** 63, 2 ** 63 + 1, 2 ** 64 - 1, 2 ** 64, 10 ** 20, 106751, 106752, 2562047, 2562048,
                               153722867280912930, 153722867280912931, 9223372036854775807 // 60, 15250284452471, 15250284452472, 106751991167300, 106751991167301, 24855, 24856, 35791394, 35791395, 127, 128])
        return rng.randrange(0, 10 ** rng.randrange(1, 20))
    parts = ''
    if rng.random() < 0.25:
        parts += '%dW' % num()
    if rng.random() < 0.5:
        parts += '%dD' % num()
    t = ''
    if rng.random() < 0.5:
        t += '%dH' % num()
    if rng.random() < 0.5:
        t += '%dM' % num()
    if rng.random() < 0.6:
        t += '%d' % num()
        if rng.random() < 0.5:
            nd = rng.choice([1, 3, 3, 6, 9, 9, 10])
            t += rng.choice('.,') + ''.join(rng.choice('0123456789') for _ in range(nd))
        t += 'S'
    s = 'P' + parts + ('T' + t if t else '')
    sg = rng.random()
    if sg < 0.3:
        s = '-' + s
    elif sg < 0.35:
        s = '+' + s
    k = rng.random()
    if k < 0.05:
        s = rng.choice(['P', 'PT', '', 'T1S', 'P1', 'PT1', '1D', 'P1Y', 'P1M', 'P1Y2M3D', 'PT1.5H', 'PT1.5M', 'P1.5D', 'P1.5W', 'PT1H1.5M', 'p1d', 'P1d', 'PT1s', 'P1DT', 'P-1D', 'P1D-', 'PT1S ', ' PT1S',
                        'PT1S1H', 'P1D1D', 'P1DT1H1H', 'PT.5S', 'PT1.S', 'PT1..5S', 'P1W1D', 'P1D1W', 'PT5', 'PT0S', '-PT0S', 'P0D'])
    elif k < 0.1:
        p = rng.randrange(len(s) + 1)
        s = s[:p] + rng.choice(['x', ' ', 'T', 'P', '-', 'Y', 'M', '\x00', 'é', '']) + s[p + (1 if rng.random() < 0.5 else 0):]
    elif k < 0.13 and s:
        p = rng.randrange(len(s))
        s = s[:p] + chr(ord(s[p]) + 0x100 * rng.choice([1, 2, 4, 0x20, 0x30, 0xFF])) + s[p + 1:]      # low byte aliases the expected ASCII character
    return s


def run(tier):
    ck = core.Check(PID, tier, 'exploration',
                    'grammar-based generator for [+-]Y..Y-MM-DDThh:mm:ss[.,f]Z and [+-]PnWnDTnHnMn[.,f]S with every field at/below/above its range, '
                    'magnitudes up to and beyond 2^64, mutated/garbage strings, in char/char16_t/char32_t, into time_point and duration over '
                    '{ns,us,ms,s,min,h,days} x {int64,int32,uint64,int8} + time_t; outcome judged by an exact-rational evaluator in the checker '
                    '(value / invalid_argument / out_of_range, unpinned forms may be accepted or rejected but never with a wrong value); all fraction '
                    'digit strings of 1..6 digits (quick; thorough 1..9 stepped) exhaustively in the driver under UBSan. '
                    'distinct non-trivial = distinct (string, target, width)',
                    ['CPython datetime/Fraction'])
    exe = C.build_conv('ubsan')
    seed = ck.seed
    rng = random.Random(core.mix(seed, 'c15'))
    q = tier == 'quick'
    # 1. exhaustive fractions
    lines = []
    for k in range(1, 10):
        total = 10 ** k
        step = 1
        if k >= 7:
            step = (total // (400000 if q else 30000000)) | 1
        nblk = 1 if total < 100000 else 32
        for b in range(nblk):
            lo = b * (total // nblk)
            hi = (b + 1) * (total // nblk) if b < nblk - 1 else total
            lines.append('op=c15frac id=fr%d-%d digits=%d lo=%d hi=%d step=%d' % (k, b, k, lo + (rng.randrange(step) if step > 1 else 0), hi, step))
    by = C.run_sweeps(ck, exe, lines, 'ubsan')
    ck.cov['fraction_strings'] = sum(e.get('values', 0) for e in by.values())
    ck.cov['fractions_exhaustive_up_to_digits'] = 6
    # 2. generated strings
    n = 60000 if q else 2500000
    lines, meta = [], {}
    tnames = list(TARGETS)
    directed = [('PT60H3600M', 'dur_days'), ('P1DT47H60M', 'dur_days32'), ('PT59M60S', 'dur_h')]   # canaries of the known finding
    for k in range(n):
        is_dt = rng.random() < 0.5
        s = gen_datetime(rng) if is_dt else gen_duration(rng)
        r = rng.random()
        if is_dt and r < 0.06:
            target = 'time_t'
        else:
            target = ('tp_' if is_dt else 'dur_') + rng.choice(tnames)
        w = rng.choice([1, 1, 1, 2, 4])
        if k < len(directed):
            s, target = directed[k]
            is_dt, w = False, 1
        i = 'g%d' % k
        lines.append('op=c15parse id=%s target=%s w=%d s=%s' % (i, target, w, s.encode('utf-8').hex()))
        meta[i] = (s, target, w, is_dt, lines[-1])
    by, crashes = core.run_cases(exe, lines, 'ubsan')
    for ln, key, err, rc in crashes:
        ck.violation('parse/sanitizer/' + key, {'driver': 'drv_conv', 'variant': 'ubsan', 'case': ln, 'stderr': err[-1500:]}, 'process died: ' + key)
    stats = {}
    for i, e in by.items():
        s, target, w, is_dt, line = meta[i]
        res = e['r']
        ck.case((s, target, w), nontrivial=True)
        kind = 'dt' if is_dt else 'dur'
        if target == 'time_t':
            bits, signed, unit = 64, True, Fraction(1)
        else:
            bits, signed, unit = TARGETS[target.split('_', 1)[1]]
        lo, hi = limits(bits, signed)
        ev = eval_datetime(s) if is_dt else eval_duration(s)
        stats[ev[0] + '/' + res.split(':')[0] + (':' + res.split(':')[1] if res.startswith('exc') else '')] = stats.get(ev[0] + '/' + res.split(':')[0] + (':' + res.split(':')[1] if res.startswith('exc') else ''), 0) + 1
        ok, why = True, ''
        if res.startswith('exc:') and res not in ('exc:invalid_argument', 'exc:out_of_range'):
            ok, why = False, 'exception class %s' % res
        elif ev[0] == 'invalid':
            if res != 'exc:invalid_argument':
                # a text that is outside the grammar AND denotes something that does not fit may be reported either way (the scanner
                # works left to right): a number too big for its field, a negative duration into an unsigned target, a leading
                # component / date that already exceeds the target range
                tolerated = False
                if res == 'exc:out_of_range':
                    if re.search(r'[0-9]{19,}', s) or (is_dt and re.search(r'[0-9]{10,}', s)):
                        tolerated = True
                    elif not is_dt:
                        if s.startswith('-') and not signed:
                            tolerated = True
                        run_total = Fraction(0)
                        for num, des in re.findall(r'([0-9]+)(?:[.,][0-9]+)?([WDHMS])', s):
                            cval = Fraction(int(num) * {'W': 604800, 'D': 86400, 'H': 3600, 'M': 60, 'S': 1}[des]) / unit
                            run_total += cval
                            if cval.denominator != 1 or not (lo <= cval <= hi) or not (lo <= run_total <= hi) or not (lo <= -run_total <= hi):
                                tolerated = True
                    else:
                        m = DT_RE.match(s)
                        if m:
                            yy = int(m.group(2)) * (-1 if m.group(1) == '-' else 1)
                            approx = Fraction((yy - 1970) * 31556952) / unit
                            if not (lo + 2 * Fraction(31556952) / unit <= approx <= hi - 2 * Fraction(31556952) / unit) or unit > 1:
                                tolerated = True
                if not tolerated:
                    ok, why = False, 'text outside the documented grammar must raise invalid_argument'
        elif ev[0] == 'unpinned':
            if res.startswith('ok:') and ev[1] is not None:
                if is_dt:
                    whole, frac = ev[1]
                    good, why2 = judge_value(res, Fraction(whole) / unit, frac, unit, lo, hi)
                    if not good and 'must be out_of_range' not in why2:
                        ok, why = False, 'unpinned form accepted with a wrong value: ' + why2
        else:
            if is_dt:
                _, whole, frac = ev
                ok, why = judge_value(res, Fraction(whole) / unit, frac, unit, lo, hi)
            else:
                _, comps, frac, negative = ev
                total = sum(comps)
                if negative and not signed:
                    ok = res == 'exc:out_of_range' or (total == 0 and frac == 0 and res == 'ok:0')
                    why = 'negative duration into an unsigned target must be out_of_range'
                else:
                    ok, why = judge_value(res, Fraction(total) / unit, frac, unit, lo, hi)
                    if not ok and res == 'exc:out_of_range' and any((Fraction(c) / unit).denominator != 1 or not (lo <= Fraction(c) / unit <= hi) for c in comps):
                        # each designator is converted on its own: a component that is not representable although the total is
                        ck.violation('dur/component-not-representable-but-total-is', {'driver': 'drv_conv', 'variant': 'ubsan', 'case': line, 'string': s, 'target': target, 'result': res},
                                     'Convert::To<%s>(%r): %s' % (target, s, why))
                        continue
        if not ok:
            cls = 'wrong-value' if res.startswith('ok') and ev[0] != 'invalid' else ('accepted-invalid' if res.startswith('ok') else ('rejected-valid' if ev[0] == 'value' else 'wrong-exception'))
            ck.violation('%s/%s/%s' % (kind, cls, 'w%d' % w if w != 1 else 'char'), {'driver': 'drv_conv', 'variant': 'ubsan', 'case': line, 'string': s, 'target': target, 'result': res, 'evaluated': str(ev)[:300]},
                         'Convert::To<%s>(%r) -> %s: %s' % (target, s, res, why))
        elif len(ck.samples) < 10 and rng.random() < 0.01:
            ck.sample({'string': s, 'target': target, 'width': w, 'result': res, 'reference': ev[0]})
    ck.cov['outcome_matrix(reference class/library outcome)'] = stats
    return ck.finish(min_nontrivial=1000)


def replay(w):
    wit = w['witness']
    exe = C.build_conv(wit.get('variant', 'ubsan'))
    ev, err, rc, bad = core.run_driver(exe, [wit['case']], wit.get('variant', 'ubsan'))
    print(ev, err[-2000:])
    return 0
