"""C05  A skipped value never disturbs the loading of its neighbours."""
import random

from vlib import core
from checks import c03, fields as F
from oracles import render as R

PID = 'C05'


def prebuild():
    c03.prebuild()


def mk_cfg(rng, arch):
    r = rng.random()
    cfg = {'offence_rate': rng.choice([0.15, 0.4, 0.8]), 'validators': ['R'], 'validator_rate': 0.4, 'strings': False}
    if r < 0.7:
        cfg.update(classes={'ovf', 'mis', 'null'}, mis='skip', ovf='skip')
    elif r < 0.85:
        cfg.update(classes={'ovf'}, mis='throw', ovf='skip')
    else:
        cfg.update(classes={'mis'}, mis='skip', ovf='throw')
    return cfg


def run(tier):
    R.FLOAT_ALT = False
    ck = core.Check(PID, tier, 'exploration',
                    'objects whose members have declared C++ target types (8 integer widths, float, double, bool, string, u16string, vector/list/deque of those, '
                    'vector<vector<int>>, tuple<int,string,double>, map<string,int>, nested objects, arrays of objects) are rendered by independent emitters with '
                    'offending values injected at random positions: integers outside the target range, negative into unsigned, doubles beyond float, text or '
                    'containers in place of numbers, numbers / containers in place of text, scalars in place of arrays, null; in member, array element, nested '
                    'array, tuple element and map value positions. Loaded with the offended policy set to Skip (both Skip; or the other policy ThrowError with '
                    'offences of the skipped class only). Oracle: offending scalar -> false and the pre-set target untouched; every other member, element '
                    '(same position), nested object, array-of-objects element and the sentinels after the object exactly as in the document; Required() fires '
                    'exactly on skipped and absent members. distinct non-trivial = distinct (archive, document, program, policies, source)',
                    ['the slot of an offending array element keeps its previous content (pre-set value or value-initialised); vector<bool> slot unconstrained',
                     'a map entry whose value offends may be absent or value-initialised', 'optional / smart pointer targets may be reset to null',
                     'XML and CSV carry text only: offences there are unparsable or overflowing text', 'JSON doubles restricted to exactly convertible ones (C08 finding)'])
    q = tier == 'quick'
    rng = random.Random(core.mix(ck.seed, 'c05'))
    F.run_field_cases(ck, rng, 20000 if q else 1000000, mk_cfg)
    return ck.finish(min_nontrivial=1000)


def replay(w):
    return c03.replay(w)
