"""C05  A skipped value never disturbs the loading of its neighbours."""
import random

from vlib import core
from checks import c03, fields as F
from oracles import render as R

PID = 'C05'


def prebuild():
    c03.prebuild()


def mk_cfg(rng, arch):
    r = rng.random()
    cfg = {'offence_rate': rng.choice([0.15, 0.4, 0.8]), 'validators': ['R'], 'validator_rate': 0.4, 'strings': False}
    if r < 0.7:
        cfg.update(classes={'ovf', 'mis', 'null'}, mis='skip', ovf='skip')
    elif r < 0.85:
        cfg.update(classes={'ovf'}, mis='throw', ovf='skip')
    else:
        cfg.update(classes={'mis'}, mis='skip', ovf='throw')
    return cfg


def run(tier):
    R.FLOAT_ALT = False
    ck = core.Check(PID, tier, 'exploration',
                    'objects whose members have declared C++ target types (8 integer widths, float, double, bool, string, u16string, vector/list/deque of those, '
                    'vector<vector<int>>, tuple<int,string,double>, map<string,int>, nested objects, arrays of objects) are rendered by independent emitters with '
                    'offending values injected at random positions: integers outside the target range, negative into unsigned, doubles beyond float, text or '
                    'containers in place of numbers, numbers / containers in place of text, scalars in place of arrays, null; in member, array element, nested '
                    'array, tuple element and map value positions. Loaded with the offended policy set to Skip (both Skip; or the other policy ThrowError with '
                    'offences of the skipped class only). Oracle: offending scalar -> false and the pre-set target untouched; every other member, element '
                    '(same position), nested object, array-of-objects element and the sentinels after the object exactly as in the document; Required() fires '
                    'exactly on skipped and absent members. distinct non-trivial = distinct (archive, document, program, policies, source)',
                    ['the slot of an offending array element keeps its previous content (pre-set value or value-initialised); vector<bool> slot unconstrained',
                     'a map entry whose value offends may be absent or value-initialised', 'optional / smart pointer targets may be reset to null',
                     'XML and CSV carry text only: offences there are unparsable or overflowing text', 'JSON doubles restricted to exactly convertible ones (C08 finding)'])
    q = tier == 'quick'
    rng = random.Random(core.mix(ck.seed, 'c05'))
    F.run_field_cases(ck, rng, 20000 if q else 1000000, mk_cfg)
    big_array_cases(ck, rng, 1 if q else 6)
    return ck.finish(min_nontrivial=1000)


def big_array_cases(ck, rng, reps):
    """Arrays longer than the part a loader may preallocate from the declared size (1 MiB / sizeof(element)): an offending element far behind that
    limit must still keep its slot and leave every later element in place."""
    exe = c03.build_req('asan')
    lines, meta = [], {}
    k = 0
    for rep in range(reps):
        for arch in ('json', 'msgpack'):
            for typ, n in (('v_str', 32768 + 300), ('v_i64', 131072 + 300), ('v_u16', 524288 + 300)):
                pos = n - rng.randrange(20, 250)
                if typ == 'v_str':
                    items = [('s', 'e%d' % i) for i in range(n)]
                    want = [F.hs('e%d' % i) for i in range(n)]
                    items[pos], want[pos] = ('i', 7), F.hs('')
                elif typ == 'v_i64':
                    items = [('i', i * 3 - 7) for i in range(n)]
                    want = [i * 3 - 7 for i in range(n)]
                    items[pos], want[pos] = ('s', 'zz'), 0
                else:
                    items = [('i', i % 65536) for i in range(n)]
                    want = [i % 65536 for i in range(n)]
                    items[pos], want[pos] = ('i', 70000 + rng.randrange(1000)), 0
                doc = c03.render(arch, ('o', [('big', ('a', items)), ('after', ('i', 5))]), None, 0)
                cid = 'big%d' % k
                k += 1
                src = rng.choice(['mem', 'sstream'])
                lines.append('op=run id=%s arch=%s doc=%s prog=G:%s:%s;G:%s:i32 mis=skip ovf=skip src=%s' % (cid, arch, doc.hex(), b'big'.hex(), typ, b'after'.hex(), src))
                meta[cid] = (arch, typ, n, pos, want, src)
    by, crashes = core.run_cases(exe, lines, 'asan')
    for ln, key, err, rc in crashes:
        ck.violation('big-array/crash/%s' % key, {'driver': 'drv_req', 'variant': 'asan', 'case': ln[:3000] + '...', 'stderr': err[-1500:]}, 'process died: ' + key)
    for cid, e in by.items():
        arch, typ, n, pos, want, src = meta[cid]
        ck.case(('big-array', arch, typ, n, pos, src), nontrivial=True)
        wit = {'driver': 'drv_req', 'variant': 'asan', 'case': 'array of %d elements (%s, %s) with an offending element at index %d, followed by member after=5; regenerate with checks/c05.py big_array_cases' % (n, arch, typ, pos)}
        if 'error' in e or e['res']['out'] != 'ok' or len(e['log']) != 2:
            ck.violation('big-array/%s/%s/not-loaded' % (arch, typ), dict(wit, event=str(e)[:600]), 'long array with one offending element was not loaded: %s' % str(e.get('res'))[:200])
            continue
        got = e['log'][0].get('v')
        if not isinstance(got, list) or len(got) != n:
            ck.violation('big-array/%s/%s/length' % (arch, typ), wit, 'loaded %s elements, document has %d' % (len(got) if isinstance(got, list) else got, n))
            continue
        bad = [i for i in range(n) if i != pos and got[i] != want[i]]
        if bad:
            ck.violation('big-array/%s/%s/neighbours-shifted' % (arch, typ), dict(wit, first_wrong_index=bad[0], got=str(got[bad[0]]), expected=str(want[bad[0]])),
                         '%d elements after the skipped one at index %d are displaced (first wrong index %d)' % (len(bad), pos, bad[0]))
        elif e['log'][1] != {'ok': True, 'v': 5}:
            ck.violation('big-array/%s/%s/member-after' % (arch, typ), wit, 'member after the array misread: %s' % e['log'][1])
    ck.cov['big_array_cases'] = len(by)


def replay(w):
    return c03.replay(w)
