"""C12  Ill-formed UTF input is reported or replaced per policy, never propagated."""
import random

from vlib import core
from checks import utfcommon as U

PID = 'C12'


def prebuild():
    U.build_utf('ubsan')
    U.build_utf('asan')


def classify(f, t, path, pol, why, src):
    """Violation key = (direction class, policy, failure class); specific enough that different defects get different keys."""
    w = why
    for pat, k in (('well-formed text lost', 'valid-text-lost'), ('ill-formed input accepted', 'accepted'),
                   ('output is ill-formed', 'ill-formed-output'), ('not replaced', 'no-mark'), ('iterator', 'wrong-position'),
                   ('reported position', 'wrong-position'), ('InvalidSequencesCount', 'wrong-count'), ('more marks', 'too-many-marks'),
                   ('UnexpectedEnd', 'bad-unexpected-end'), ('valid input', 'valid-rejected'), ('extra output', 'extra-output'),
                   ('output before the error', 'prefix-differs'), ('error code', 'error-code')):
        if pat in w:
            w = k
            break
    return '%d->%d/%s/%s/%s' % (U.WIDTH[f] * 8, U.WIDTH[t] * 8, path, pol, w)


def run(tier):
    ck = core.Check(PID, tier, 'exploration',
                    'exhaustive: all UTF-8 strings of length<=3, 4-byte strings over tail-class representatives, UTF-16 unit '
                    'pairs/triples over class representatives, UTF-32 units (stepped, all planes + surrogates + >U+10FFFF) judged by an '
                    'in-driver table-3-7 reference which is cross-checked against CPython errors=replace every run; plus random '
                    'ill-formed fragments embedded in valid text, judged by CPython codecs in the checker. non-trivial = input is '
                    'ill-formed; distinct = distinct (input, from, to, path, policy, mark)',
                    ['CPython codecs implement maximal-subpart replacement (Unicode 3.9)', 'same-width copies are excluded (property text)'])
    exe_u = U.build_utf('ubsan')
    exe_a = U.build_utf('asan')
    seed = ck.seed
    rng = random.Random(core.mix(seed, 'c12'))

    # 1. in-driver exhaustive sweeps
    lines = []
    for b0 in range(256):
        lines.append('op=sweep12 id=u8l1-%d kind=u8 len=1 lo=%d hi=%d' % (b0, b0, b0 + 1))
        lines.append('op=sweep12 id=u8l2-%d kind=u8 len=2 lo=%d hi=%d' % (b0, b0, b0 + 1))
        lines.append('op=sweep12 id=u8l3-%d kind=u8 len=3 lo=%d hi=%d' % (b0, b0, b0 + 1))
    tails = bytes([0x00, 0x41, 0x7F, 0x80, 0x8F, 0x90, 0x9F, 0xA0, 0xBF, 0xC0, 0xC2, 0xE0, 0xED, 0xF0, 0xF4, 0xF5, 0xFF])
    for b0 in range(0x80, 256):
        lines.append('op=sweep12 id=u8l4-%d kind=u8 len=4 lo=%d hi=%d tails=%s' % (b0, b0, b0 + 1, tails.hex()))
    for ln in (1, 2, 3):
        lines.append('op=sweep12 id=u16l%d kind=u16 len=%d' % (ln, ln))
    # UTF-32: surrogates and the neighbourhood of the upper limit densely, the rest stepped
    lines.append('op=sweep12 id=u32a kind=u32 lo=%d hi=%d step=1' % (0xD700, 0xE100))
    lines.append('op=sweep12 id=u32b kind=u32 lo=%d hi=%d step=1' % (0x10FF00, 0x110100))
    step = 257 if tier == 'quick' else 17
    for lo in range(0, 0x110000, 0x10000):
        lines.append('op=sweep12 id=u32p%x kind=u32 lo=%d hi=%d step=%d' % (lo, lo + rng.randrange(step), lo + 0x10000, step))
    for lo in (0x110000, 0x200000, 0x7FFFFF00, 0x80000000, 0xFFFFFF00):
        lines.append('op=sweep12 id=u32h%x kind=u32 lo=%d hi=%d step=1' % (lo, lo, lo + 0x100))
    ev = U.run_stage(ck, exe_u, lines, 'ubsan', 'sweep12')
    cases = ill = calls = 0
    for e in ev:
        cases += e['cases']
        ill += e['illformed']
        calls += e['calls']
        for f in e['fails']:
            key = classify(f['from'], f['to'], f['path'], f['policy'], f['why'], f['src'])
            pol = 'throw' if f['policy'] == 'throw' else 'skip'
            ck.violation(key, {'driver': 'drv_utf', 'variant': 'ubsan',
                               'case': 'op=transcode src=%s from=%s to=%s path=%s policy=%s' % (f['src'], f['from'], f['to'], f['path'], pol),
                               'detail': f}, '%s src=%s %s->%s: %s' % (f['policy'], f['src'], f['from'], f['to'], f['why']))
    ck.add_counts(calls)
    ck.cov['sweep_inputs'] = cases
    ck.cov['sweep_illformed_judgements'] = ill
    ck.cov['sweep_library_calls'] = calls
    ck.cov['sweep_complete_domains'] = ['utf8 len1 (256)', 'utf8 len2 (65536)', 'utf8 len3 (16777216)', 'utf8 len4 over 17 tail classes',
                                       'utf16 1..3 units over 17 class representatives x {native,LE,BE}', 'utf32 D700..E0FF, 10FF00..1100FF dense']
    for i in range(0, ill, max(1, ill // 50000)):
        ck.distinct.add(('sweep', i))
    ck.sample({'sweep': 'utf8 bytes e2 41 42 -> utf16/utf32 under Skip and ThrowError', 'oracle': 'table 3-7 segmentation'})

    # 2. cross-check the in-driver reference segmentation against CPython (errors=replace)
    lines, meta = [], {}
    for k in range(3000 if tier == 'quick' else 40000):
        enc = rng.choice(U.ENC5)
        n = rng.randrange(1, 9)
        if enc == 'utf8':
            b = bytes(rng.choice([rng.randrange(256), rng.choice(tails)]) for _ in range(n))
        elif U.WIDTH[enc] == 2:
            b = U.from_units([rng.choice([0x41, 0xD800, 0xDBFF, 0xDC00, 0xDFFF, 0xE000, 0xD7FF, 0xFFFF, rng.randrange(0x10000)]) for _ in range(n)], enc)
        else:
            b = U.from_units([rng.choice([0x41, 0xD800, 0xDFFF, 0x10FFFF, 0x110000, 0xFFFFFFFF, rng.randrange(0x120000)]) for _ in range(n)], enc)
        if '�' in b.decode(U.ENC_PY[enc], errors='ignore'):
            continue
        i = 'x%d' % k
        lines.append('op=refseg id=%s enc=%s src=%s' % (i, enc, b.hex()))
        meta[i] = (enc, b)
    ev = U.run_stage(ck, exe_u, lines, 'ubsan', 'refseg')
    agree = 0
    for e in ev:
        enc, b = meta[e['id']]
        mine = [None if x < 0 else x for x in e['items']]
        if mine != U.py_items(b, enc):
            ck.harness_error('in-driver reference segmentation disagrees with CPython for %s %s: %s vs %s' % (enc, b.hex(), e['items'], U.py_items(b, enc)))
        else:
            agree += 1
    ck.cov['reference_segmentations_crosschecked_with_cpython'] = agree

    # 3. ill-formed fragments embedded in valid text, judged by CPython (asan build)
    nseq = 6000 if tier == 'quick' else 250000
    lines, meta = [], {}
    frags8 = [b'\x80', b'\xbf', b'\xc0\x80', b'\xc1\xbf', b'\xe0\x80\x80', b'\xe0\x9f\xbf', b'\xed\xa0\x80', b'\xed\xbf\xbf', b'\xf0\x80\x80\x80',
              b'\xf0\x8f\xbf\xbf', b'\xf4\x90\x80\x80', b'\xf5\x80\x80\x80', b'\xf8\x88\x80\x80\x80', b'\xfc\x84\x80\x80\x80\x80', b'\xfe', b'\xff',
              b'\xe2\x82', b'\xe2', b'\xf0\x9f\x98', b'\xf0\x9f', b'\xf0', b'\xc3', b'\xe2\x41', b'\xf0\x9f\x41', b'\xc3\x28', b'\xe2\x28\xa1',
              b'\xe2\x82\x28', b'\xf0\x28\x8c\xbc', b'\xf0\x90\x28\xbc', b'\xf0\x28\x8c\x28']
    frags16 = [[0xD800], [0xDBFF], [0xDC00], [0xDFFF], [0xD800, 0xD800], [0xDC00, 0xD800], [0xD800, 0x41], [0xD800, 0xE000], [0xDBFF, 0xE000],
               [0xD800, 0xFFFF], [0xDBFF, 0xDBFF, 0xDC00]]
    frags32 = [[0xD800], [0xDFFF], [0xDBFF, 0xDC00], [0x110000], [0x7FFFFFFF], [0x80000000], [0xFFFFFFFF], [0x200000], [0xFFFFFF]]
    for k in range(nseq):
        f = rng.choice(U.ENC5 + ['utf16', 'utf32'])
        t = rng.choice([e for e in U.ENC_PY if U.WIDTH[e] != U.WIDTH[f]])
        mark_kind = rng.choice(['default', 'default', 'custom', 'none'])
        mark_cp = {'default': 0x2610, 'custom': rng.choice([0x3F, 0xFFFD, 0x1F4A9]), 'none': None}[mark_kind]
        avoid = (0xFFFD, 0x2610, 0x3F, 0x1F4A9)
        parts = []
        nfr = rng.choice([0, 1, 1, 1, 2, 3])
        for j in range(nfr + 1):
            parts.append(U.rand_text(rng, 12, avoid).encode(U.ENC_PY[f]))
            if j < nfr:
                if U.WIDTH[f] == 1:
                    fr = rng.choice(frags8) if rng.random() < 0.8 else bytes(rng.randrange(0x80, 0x100) for _ in range(rng.randrange(1, 5)))
                elif U.WIDTH[f] == 2:
                    fr = U.from_units(rng.choice(frags16), f)
                else:
                    fr = U.from_units(rng.choice(frags32), f)
                parts.append(fr)
        src = b''.join(parts)
        if rng.random() < 0.25:
            # ill-formed fragment as the very last thing of the input (nothing behind it may be read)
            if U.WIDTH[f] == 1:
                src += rng.choice(frags8)
            elif U.WIDTH[f] == 2:
                src += U.from_units(rng.choice(frags16 + [[0xDBFF], [0xDB00], [0xD800]]), f)
            else:
                src += U.from_units(rng.choice(frags32), f)
        if rng.random() < 0.15 and len(src) > U.WIDTH[f]:
            cut = rng.randrange(1, len(src) // U.WIDTH[f]) * U.WIDTH[f]
            src = src[:cut]     # truncated tail
        paths = ['decode']
        if f in U.NATIVE:
            paths.append('encode')
        path = rng.choice(paths)
        pol = rng.choice(['skip', 'skip', 'throw'])
        if mark_kind == 'default':
            mk = 'default'
        elif mark_kind == 'none':
            mk = 'none'
        else:
            # custom mark is passed in native order of the target width
            nat = {1: 'utf-8', 2: 'utf-16-le', 4: 'utf-32-le'}[U.WIDTH[t]]
            mk = chr(mark_cp).encode(nat).hex()
        i = 'e%d' % k
        pre = ''
        lines.append('op=transcode id=%s src=%s from=%s to=%s path=%s policy=%s mark=%s' % (i, src.hex(), f, t, path, pol, mk))
        meta[i] = (src, f, t, path, pol, mark_cp, mark_kind, lines[-1])
    by_id, crashes = core.run_cases(exe_a, lines, 'asan')
    for ln, key, err, rc in crashes:
        ck.violation('sequence/crash/%s' % key, {'driver': 'drv_utf', 'variant': 'asan', 'case': ln[:100000], 'stderr': err[-2000:]}, 'transcoding an ill-formed sequence died: ' + key)
    ev = list(by_id.values())
    if len(ev) + len(crashes) != len(lines):
        ck.harness_error('embedded-fragment run lost cases: %d of %d' % (len(ev) + len(crashes), len(lines)))
    for e in ev:
        src, f, t, path, pol, mark_cp, mark_kind, line = meta[e['id']]
        out = bytes.fromhex(e['out'])
        ill = any(x is None for x in U.py_items(src, f))
        ck.case((src, f, t, path, pol, mark_kind), nontrivial=ill)
        if pol == 'throw':
            why = U.judge_throw(src, f, out, t, e['ec'], e['iter'], e['threw'])
        else:
            why = U.judge_skip(src, f, out, t, mark_cp, e['count'], e['ec'], e['iter'])
        if why:
            ck.violation(classify(f, t, path, pol, why, src.hex()), {'driver': 'drv_utf', 'variant': 'asan', 'case': line, 'event': e},
                         '%s %s->%s via %s mark=%s src=%s: %s' % (pol, f, t, path, mark_kind, src.hex(), why))
        elif ill and len(ck.samples) < 8:
            ck.sample({'src': src.hex(), 'from': f, 'to': t, 'path': path, 'policy': pol, 'mark': mark_kind, 'out': e['out'][:80], 'ec': e['ec'], 'iter': e['iter'], 'count': e['count']})
    return ck.finish(min_nontrivial=1000)


def replay(w):
    wit = w['witness']
    exe = U.build_utf(wit.get('variant', 'asan'))
    ev, err, rc, bad = core.run_driver(exe, [wit['case']], wit.get('variant', 'asan'))
    print(ev, err[-2000:])
    return 0
