"""C04  Numbers load exactly or are reported per policy, never silently altered."""
import random

from vlib import core
from checks import convcommon as C

PID = 'C04'
TYPES = ['bool', 'char', 'i8', 'u8', 'i16', 'u16', 'i32', 'u32', 'i64', 'u64', 'f32', 'f64']


def prebuild():
    C.build_conv('ubsan')
    try:
        from checks import doccommon
        doccommon.prebuild_doc()
    except ImportError:
        pass


def run(tier):
    ck = core.Check(PID, tier, 'exploration',
                    'direct Convert::To<T>(S) for all 12x12 pairs over bool,char,(u)int8..64,float,double: every value of 8/16-bit sources, '
                    'limits+-2 / 2^k+-1 / random for wider and floating sources, judged by an exact long-double model (representable -> equal, '
                    'else out_of_range; float->integer = invalid_argument); the same source values carried by archive documents (root, array '
                    'element, object member, XML attribute, CSV cell, map key; every legal MsgPack width) into every target type under the 2x2 '
                    'policy settings, judged by an exact-integer/Fraction model in the checker. distinct non-trivial = distinct (source value, '
                    'source type/carrier, target type, policy)',
                    ['x87 long double represents every 64-bit integer and every double exactly'])
    exe = C.build_conv('ubsan')
    seed = ck.seed
    q = tier == 'quick'
    lines = []
    for t in TYPES:
        nb = 1 if t in ('bool', 'char', 'i8', 'u8', 'i16', 'u16') else (8 if q else 64)
        for b in range(nb):
            lines.append('op=c04conv id=c-%s-%d type=%s seed=%d n=%d' % (t, b, t, core.mix(seed, t, b) % 2 ** 31, 20000 if q else 400000))
    by = C.run_sweeps(ck, exe, lines, 'ubsan', keyprefix='direct/')
    ck.cov['direct_source_values'] = sum(e.get('values', 0) for e in by.values())
    ck.cov['direct_conversions'] = sum(e.get('calls', 0) for e in by.values())
    for i in range(0, min(ck.cov['direct_source_values'], 100000)):
        ck.distinct.add(('direct', i))
    ck.sample({'direct': 'Convert::To<float>(int64 9223372036854775807)', 'allowed': 'out_of_range or nearest float', 'never': 'UB / wrapped value'})
    from checks import c04docs
    ck.cov['document_part'] = c04docs.run_part(ck, tier)
    return ck.finish(min_nontrivial=1000)


def replay(w):
    wit = w['witness']
    if wit.get('driver') == 'drv_req':
        from checks import c03
        return c03.replay(w)
    exe = C.build_conv(wit.get('variant', 'ubsan'))
    ev, err, rc, bad = core.run_driver(exe, [wit['case']], wit.get('variant', 'ubsan'))
    print(ev, err[-2000:])
    return 0
