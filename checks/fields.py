"""Typed field generator shared by C05 / C17: documents whose members have a declared C++ target type, optional offences
(overflowing / mismatched / null values in scalar, element, tuple and map-value positions), optional validators, and the
expected log of drv_req together with the expected validation errors, all computed from the documented semantics."""
import struct

from oracles import shapes as S

INT_RANGES = {'i8': (-128, 127), 'i16': (-32768, 32767), 'i32': (-2 ** 31, 2 ** 31 - 1), 'i64': (-2 ** 63, 2 ** 63 - 1),
              'u8': (0, 255), 'u16': (0, 65535), 'u32': (0, 2 ** 32 - 1), 'u64': (0, 2 ** 64 - 1)}
SCALARS = list(INT_RANGES) + ['f32', 'f64', 'bool', 'str', 'wstr']
SEQS = {'v_i32': 'i32', 'v_i64': 'i64', 'v_u16': 'u16', 'v_f32': 'f32', 'v_f64': 'f64', 'v_bool': 'bool', 'v_str': 'str', 'l_i64': 'i64', 'd_u16': 'u16'}
ANY = {'any': 1}


def hs(s):
    return {'s': s.encode('utf-8').hex()}


def f32hex(x):
    return struct.pack('>f', x).hex()


def f64hex(x):
    return struct.pack('>d', x).hex()


SENT = {'i8': 90, 'i16': 23130, 'i32': 1515870810, 'i64': 6510615555426900570, 'u8': 90, 'u16': 23130, 'u32': 1515870810, 'u64': 6510615555426900570,
        'f32': {'f32': f32hex(1234.5)}, 'f64': {'f64': f64hex(1234.5)}, 'bool': True, 'str': hs('~sentinel~'), 'wstr': hs('~sentinel~'),
        'ostr': hs('~sentinel~'), 'oi64': 77, 'uptr': 1515870810, 'atom': 1515870810, 'tpms': {'tp': 5555},
        'v_i32': [7, 8, 9], 'v_i64': [7, 8, 9], 'v_u16': [7, 8, 9], 'v_f32': [{'f32': f32hex(1.5)}], 'v_f64': [{'f64': f64hex(1.5)}], 'v_bool': [True],
        'v_str': [hs('~a~'), hs('~b~')], 'vv_i32': [[7], [8, 9]], 'l_i64': [7, 8, 9], 'd_u16': [7, 8, 9],
        'tup': [-7, hs('~t~'), {'f64': f64hex(-7.5)}], 'm_s_i32': {'m': [[hs('~k~'), 7]]}, 's_i32': [7, 8, 9], 'ms_i32': [7, 7]}
ZERO = {'f32': {'f32': '00000000'}, 'f64': {'f64': '0' * 16}, 'bool': False, 'str': hs(''), 'wstr': hs('')}
NULLABLE = ('ostr', 'oi64', 'uptr')


def zero_of(t):
    return ZERO.get(t, 0)


def text_ok(rng, arch, maxlen=10):
    ctx = {'xml': arch == 'xml', 'nonul': arch in ('csv', 'xml')}
    txt = S.rand_text(rng, ctx, maxlen)
    if arch in ('xml', 'csv') and (txt == '' or txt.strip(' \t\n\r') != txt):
        txt = 'x' + txt + 'x'
    return txt


def conforming(t, rng, arch):
    """-> (doc item, expected desc)"""
    if t in INT_RANGES:
        lo, hi = INT_RANGES[t]
        v = S.rand_int(rng, lo, hi)
        return ('i', v), v
    if t == 'f32':
        x = rng.getrandbits(20) * 2.0 ** rng.randrange(-6, 21) * rng.choice([1, -1])
        return ('f', f64hex(x)), {'f32': f32hex(x)}
    if t == 'f64':
        if arch == 'json':
            x = (rng.getrandbits(49) >> rng.randrange(49)) / 10.0 ** rng.randrange(16) * rng.choice([1, -1])
            return ('f', f64hex(x)), {'f64': f64hex(x)}
        hx = S.rand_f64(rng, {'nonfinite': False})
        return ('f', hx), {'f64': hx}
    if t == 'bool':
        b = rng.random() < 0.5
        return ('b', b), b
    if t in ('str', 'wstr'):
        txt = text_ok(rng, arch)
        return ('s', txt), hs(txt)
    if t in SEQS:
        n = rng.randrange(1 if arch == 'xml' else 0, 7)
        items = [conforming(SEQS[t], rng, arch) for _ in range(n)]
        return ('a', [i for i, _ in items]), [d for _, d in items]
    if t in ('s_i32', 'ms_i32'):
        n = rng.randrange(1 if arch == 'xml' else 0, 7)
        items = [conforming('i32', rng, arch) for _ in range(n)]
        vals = [d for _, d in items]
        return ('a', [i for i, _ in items]), (sorted(set(vals)) if t == 's_i32' else sorted(vals))
    if t == 'vv_i32':
        n = rng.randrange(1 if arch == 'xml' else 0, 4)
        rows = []
        for _ in range(n):
            m = rng.randrange(1 if arch == 'xml' else 0, 4)
            rows.append([conforming('i32', rng, arch) for _ in range(m)])
        return ('a', [('a', [i for i, _ in r]) for r in rows]), [[d for _, d in r] for r in rows]
    if t == 'tup':
        a, b, c = conforming('i32', rng, arch), conforming('str', rng, arch), conforming('f64', rng, arch)
        return ('a', [a[0], b[0], c[0]]), [a[1], b[1], c[1]]
    if t == 'm_s_i32':
        n = rng.randrange(1 if arch == 'xml' else 0, 5)
        keys = []
        while len(keys) < n:
            k = S.rand_name(rng, {'xml': True})
            if k not in keys:
                keys.append(k)
        vals = [conforming('i32', rng, arch) for _ in keys]
        ent = sorted(zip(keys, vals), key=lambda kv: kv[0].encode('utf-8'))
        return ('o', [(k, v[0]) for k, v in zip(keys, vals)]), {'m': [[hs(k), v[1]] for k, v in ent]}
    raise ValueError(t)


def offence(t, rng, arch, classes):
    """Offending doc item for a scalar target type t -> (item, class) or None.  classes: subset of {'ovf','mis','null'}"""
    typed = arch in ('json', 'msgpack')
    opts = []
    if 'ovf' in classes:
        if t in INT_RANGES:
            lo, hi = INT_RANGES[t]
            if t == 'i64':
                opts.append((('i', rng.choice([2 ** 63, 2 ** 63 + 1, 2 ** 64 - 1, 2 ** 63 + rng.getrandbits(62)])), 'ovf'))
            elif t == 'u64':
                if typed or 'mis' in classes:
                    opts.append((('i', rng.choice([-1, -2, -2 ** 63, -rng.getrandbits(62) - 1])), 'ovf'))
            else:
                big = rng.choice([hi + 1, hi + 2, hi * 2 + 1, 2 ** 40 + 5, 2 ** 63 - 1] + ([2 ** 64 - 1] if typed or True else []))
                small = rng.choice([lo - 1, lo - 2, -2 ** 40 - 5, -2 ** 63] if lo < 0 else [-1, -2, -200, -2 ** 63])
                opts.append((('i', big), 'ovf'))
                if lo < 0 or typed or 'mis' in classes:      # "-1" as text for an unsigned target may be reported as mismatched type as well (C16)
                    opts.append((('i', small), 'ovf'))
        if t == 'f32':
            opts.append((('f', f64hex(rng.choice([1e39, -1e39, 3.5e38, 1e300]))), 'ovf'))
        if t == 'f64' and arch in ('xml', 'csv'):
            opts.append((('s', rng.choice(['1e400', '-1e999', '2e308'])), 'ovf'))
    if 'mis' in classes:
        word = rng.choice(['abc', 'qx', 'x1', '--', 'seven'])
        if t in INT_RANGES or t in ('f32', 'f64', 'bool'):
            opts.append((('s', word), 'mis'))
            if typed:
                opts.append((('a', [('i', 1), ('i', 2)]), 'mis'))
                opts.append((('o', [('x', ('i', 1))]), 'mis'))
        elif t in ('str', 'wstr') and typed:
            opts.append((('i', rng.choice([5, -5, 2 ** 40])), 'mis'))
            opts.append((('b', True), 'mis'))
            opts.append((('a', [('s', 'p'), ('s', 'q')]), 'mis'))
            opts.append((('o', [('x', ('s', 'p'))]), 'mis'))
    if 'mis' in classes and arch == 'msgpack':
        # an application-defined extension value (any type code but -1) in place of any typed member: skipped as a whole, whatever header form carries it
        n = rng.choice([0, 1, 2, 3, 4, 8, 16, 17, 40, 300])
        opts.append((('x', rng.choice([0, 1, 5, 42, 127, -2, -128]), bytes(rng.randrange(256) for _ in range(n)), rng.choice([None, None, 'ext8', 'ext16', 'ext32'])), 'mis'))
    if 'null' in classes and typed:
        opts.append((('n',), 'null'))
    if not opts:
        return None
    return rng.choice(opts)


def container_offence(t, rng, arch, classes):
    """scalar / object in place of an array (typed formats only)"""
    if arch not in ('json', 'msgpack') or 'mis' not in classes:
        return None
    return rng.choice([('i', 5), ('s', 'abc'), ('b', False)] + ([('o', [('x', ('i', 1))])] if t != 'm_s_i32' else [('a', [('i', 1)])])), 'mis'


class Field:
    __slots__ = ('key', 'type', 'item', 'loaded', 'value', 'offences', 'soft', 'tag')

    def __init__(self, key, typ):
        self.key, self.type, self.item, self.loaded, self.value, self.offences, self.soft, self.tag = key, typ, None, False, None, [], None, None


def all_types(arch):
    return SCALARS if arch == 'csv' else SCALARS + list(SEQS) + ['vv_i32', 'tup', 'm_s_i32', 's_i32', 'ms_i32']


def gen_field(key, rng, arch, offence_rate, classes, t=None):
    """A field with a document value; .loaded/.value describe the expected state of a target pre-set to SENT[type]."""
    t = t or rng.choice(all_types(arch))
    f = Field(key, t)
    item, desc = conforming(t, rng, arch)
    f.item, f.loaded, f.value = item, True, desc
    if rng.random() >= offence_rate:
        return f
    if t in SCALARS:
        off = offence(t, rng, arch, classes)
        if off:
            f.item, f.loaded, f.value = off[0], False, SENT[t]
            f.offences.append(off[1])
        return f
    # containers: offend the whole value or single elements
    if rng.random() < 0.25:
        off = container_offence(t, rng, arch, classes)
        if off:
            f.item, f.loaded, f.value = off[0], False, SENT[t]
            f.offences.append(off[1])
        return f
    if t in SEQS:
        et = SEQS[t]
        items, descs = list(item[1]), list(desc)
        for i in range(len(items)):
            if rng.random() < 0.4:
                off = offence(et, rng, arch, classes)
                if off:
                    items[i] = off[0]
                    prior = SENT[t][i] if i < len(SENT[t]) else zero_of(et)
                    descs[i] = prior if t != 'v_bool' else ANY
                    f.offences.append(off[1])
        f.item, f.value = ('a', items), descs
    elif t in ('s_i32', 'ms_i32'):
        # sets: an offending element is reported as not loaded and leaves a value-initialised element (like the slot of a vector); every other element is kept
        items = list(item[1])
        keep = []
        for i in range(len(items)):
            if rng.random() < 0.4:
                off = offence('i32', rng, arch, classes)
                if off:
                    items[i] = off[0]
                    f.offences.append(off[1])
                    keep.append(0)
                    continue
            keep.append(items[i][1])
        f.item, f.value = ('a', items), (sorted(set(keep)) if t == 's_i32' else sorted(keep))
    elif t == 'vv_i32':
        rows, descs = [list(r[1]) for r in item[1]], [list(d) for d in desc]
        out_rows = []
        for ri, r in enumerate(rows):
            if rng.random() < 0.2:
                off = container_offence('v_i32', rng, arch, classes)
                if off:
                    out_rows.append(off[0])
                    descs[ri] = SENT[t][ri] if ri < len(SENT[t]) else []
                    f.offences.append(off[1])
                    continue
            for i in range(len(r)):
                if rng.random() < 0.3:
                    off = offence('i32', rng, arch, classes)
                    if off:
                        r[i] = off[0]
                        prior_row = SENT[t][ri] if ri < len(SENT[t]) else []
                        descs[ri][i] = prior_row[i] if i < len(prior_row) else 0
                        f.offences.append(off[1])
            out_rows.append(('a', r))
        f.item, f.value = ('a', out_rows), descs
    elif t == 'tup':
        items, descs = list(item[1]), list(desc)
        for i, et in enumerate(['i32', 'str', 'f64']):
            if rng.random() < 0.35:
                off = offence(et, rng, arch, classes)
                if off:
                    items[i] = off[0]
                    descs[i] = SENT['tup'][i]
                    f.offences.append(off[1])
        f.item, f.value = ('a', items), descs
    elif t == 'm_s_i32':
        ent = list(item[1])
        soft = set()
        for i, (k, v) in enumerate(ent):
            if rng.random() < 0.35:
                off = offence('i32', rng, arch, classes)
                if off:
                    ent[i] = (k, off[0])
                    soft.add(k)
                    f.offences.append(off[1])
        f.item = ('o', ent)
        f.soft = soft
    return f


def match(exp, got):
    """exp may contain ANY placeholders"""
    if exp is ANY or (isinstance(exp, dict) and exp.get('any') == 1):
        return True
    if isinstance(exp, list):
        return isinstance(got, list) and len(exp) == len(got) and all(match(e, g) for e, g in zip(exp, got))
    return exp == got


def match_field(f, rec):
    """rec = {'ok':..,'v':..} from the driver; returns None or the reason"""
    if rec.get('ok') != f.loaded:
        return 'returned %s, expected %s' % (rec.get('ok'), f.loaded)
    got = rec.get('v')
    if not f.loaded and f.type in NULLABLE and got is None:
        return None
    if f.type == 'm_s_i32' and f.loaded and f.soft:
        want = {json_key(k): v for k, v in f.value['m']}
        have = {}
        for k, v in (got or {}).get('m', []):
            have[json_key(k)] = v
        for k, v in want.items():
            name = bytes.fromhex(k).decode('utf-8')
            if name in f.soft:
                if k in have and have[k] != 0:
                    return 'map entry of an offending value is %s (expected absent or value-initialised)' % have[k]
            elif have.get(k) != v:
                return 'map entry %s is %s, expected %s' % (name, have.get(k), v)
        extra = set(have) - set(want)
        if extra:
            return 'unexpected map keys %s' % sorted(extra)
        return None
    if not match(f.value, got):
        return 'target is %s, expected %s' % (str(got)[:160], str(f.value)[:160])
    return None


def json_key(k):
    return k['s']


# ------------------------------------------------------------------ validators
def utf16_len(s):
    return len(s.encode('utf-16-le')) // 2


def size_of(f, value):
    """size() of the loaded target"""
    t = f.type
    if t == 'str':
        return len(bytes.fromhex(value['s']))
    if t == 'wstr':
        return utf16_len(bytes.fromhex(value['s']).decode('utf-8'))
    if t == 'm_s_i32':
        return None
    return len(value)


def eval_validators(f, vals, present):
    """-> list of (message or ('prefix', text)) for failing validators, in declaration order"""
    out = []
    loaded = f.loaded if present else False
    for v in vals:
        if v == 'R':
            if not loaded:
                out.append('This field is required')
        elif v == 'Rc':
            if not loaded:
                out.append('custom-required')
        elif v == 'L':
            if loaded:
                out.append('custom-loaded')
        elif v[0] == 'G':
            lo, hi = v[1:].split('~')
            if loaded:
                if f.type in INT_RANGES:
                    x = f.value
                    if x < int(lo) or x > int(hi):
                        out.append('Value must be between %s and %s' % (lo, hi))
                else:
                    key = 'f32' if f.type == 'f32' else 'f64'
                    x = struct.unpack('>f' if key == 'f32' else '>d', bytes.fromhex(f.value[key]))[0]
                    if x < float(lo) or x > float(hi):
                        out.append(('prefix', 'Value must be between '))
        elif v[0] in 'NX':
            k = int(v[1:])
            if loaded:
                n = size_of(f, f.value)
                if v[0] == 'N' and n < k:
                    out.append('The minimum size of this field should be %d' % k)
                if v[0] == 'X' and n > k:
                    out.append('The maximum size of this field should be not greater than %d' % k)
        elif v == 'E':
            if loaded and f.tag == 'email_bad':
                out.append('Invalid email address')
        elif v == 'P':
            if loaded and f.tag == 'phone_bad':
                out.append(('prefix', 'Invalid phone number'))
    return out


# ------------------------------------------------------------------ objects, programs, evaluation
EMAIL_OK = ['user@example.com', 'first.last@sub.domain.org', 'a_b-c+tag@host.io', 'x@y.zz']
EMAIL_BAD = ['plainaddress', '@missing-local.org', 'two@@example.com', 'user@', 'user@.com', '.user@example.com', 'user name@example.com']
PHONE_OK = ['+1 (555) 123-4567', '+380 44 123-45-67', '+15551234567']
PHONE_BAD = ['abc', '5551234567', '+1 (555 123-4567', '+12', '+1 555 123 4567 8901 2345', '+1 555-', '+1 ((55)) 1234567']


class Node:
    def __init__(self):
        self.order, self.fields, self.objs, self.arrs = [], {}, {}, {}
        self.offend = None        # element of an array of objects that is not an object in the document (skipped as a whole)

    def item(self):
        if self.offend is not None:
            return self.offend
        out = []
        for k in self.order:
            if k in self.fields:
                out.append((k, self.fields[k].item))
            elif k in self.objs:
                out.append((k, self.objs[k].item()))
            else:
                out.append((k, ('a', [n.item() for n in self.arrs[k]])))
        return ('o', out)


def new_key(rng, used):
    while True:
        k = S.rand_name(rng, {'xml': True})
        if k not in used and k not in ('s1', 's2', 'object', 'array', 'value', 'root'):
            used.add(k)
            return k


def gen_node(rng, arch, cfg, depth=0, schema=None):
    """schema: list of (key, type) to reuse (elements of an array of objects share field types)"""
    node = Node()
    used = set()
    if schema is None:
        schema = []
        for _ in range(rng.randrange(1, (10 if depth == 0 else 5))):
            schema.append((new_key(rng, used), rng.choice(all_types(arch))))
        own_schema = True
    else:
        own_schema = False
        used = {k for k, _ in schema}
    for k, t in schema:
        if not own_schema and rng.random() < 0.25:
            continue                                      # this element lacks the member
        f = gen_field(k, rng, arch, cfg['offence_rate'], cfg['classes'], t)
        node.fields[k] = f
        node.order.append(k)
    if cfg.get('strings') and arch != 'csv' or (cfg.get('strings') and depth == 0):
        for tag, pool in (('email_ok', EMAIL_OK), ('email_bad', EMAIL_BAD), ('phone_ok', PHONE_OK), ('phone_bad', PHONE_BAD)):
            if own_schema and rng.random() < 0.15:
                k = new_key(rng, used)
                f = Field(k, 'str')
                txt = rng.choice(pool)
                f.item, f.loaded, f.value, f.tag = ('s', txt), True, hs(txt), tag
                node.fields[k] = f
                node.order.append(k)
    if arch != 'csv' and depth < 2 and own_schema:
        if rng.random() < 0.35:
            k = new_key(rng, used)
            node.objs[k] = gen_node(rng, arch, cfg, depth + 1)
            node.order.append(k)
        if rng.random() < 0.3:
            k = new_key(rng, used)
            sub_used = set()
            sub_schema = [(new_key(rng, sub_used), rng.choice(all_types(arch))) for _ in range(rng.randrange(1, 4))]
            n = rng.randrange(1 if arch == 'xml' else 0, 4)
            node.arrs[k] = [gen_node(rng, arch, cfg, depth + 1, sub_schema) for _ in range(n)]
            if arch in ('json', 'msgpack') and 'mis' in cfg['classes'] and cfg.get('mis', 'skip') == 'skip':
                for el in node.arrs[k]:
                    if rng.random() < cfg['offence_rate'] * 0.5:
                        el.offend = rng.choice([('i', 7), ('s', 'abc'), ('b', True), ('a', [('i', 1), ('i', 2)]), ('f', '3ff8000000000000'), ('n',)])
            node.arrs[k + '\0schema'] = sub_schema
            node.order.append(k)
    rng.shuffle(node.order)
    return node


def pick_validators(f_type, tag, f, rng, cfg):
    kinds = cfg.get('validators')
    if not kinds or rng.random() >= cfg.get('validator_rate', 0):
        return []
    vals = []
    for _ in range(rng.choice([1, 1, 2, 3])):
        k = rng.choice(kinds)
        if k == 'G':
            if f_type in INT_RANGES:
                lo, hi = INT_RANGES[f_type]
                x = f.value if (f is not None and f.loaded) else rng.randrange(max(lo, -1000), min(hi, 1000) + 1)
                a = max(lo, min(hi, x + rng.choice([-2, -1, 0, 0, 1, 2])))
                b = max(lo, min(hi, x + rng.choice([-2, -1, 0, 0, 1, 2, 50])))
                if a > b and rng.random() < 0.8:
                    a, b = b, a
                vals.append('G%d~%d' % (a, b))
            elif f_type in ('f32', 'f64'):
                vals.append('G%d~%d' % (rng.choice([-1000, -1, 0]), rng.choice([0, 1, 1000])))
        elif k in ('N', 'X'):
            if f_type in ('str', 'wstr') or f_type in SEQS or f_type in ('vv_i32', 's_i32', 'ms_i32'):
                n = size_of(f, f.value) if (f is not None and f.loaded) else 2
                vals.append('%s%d' % (k, max(0, n + rng.choice([-1, 0, 0, 1]))))
        elif k == 'E':
            if tag and tag.startswith('email'):
                vals.append('E')
        elif k == 'P':
            if tag and tag.startswith('phone'):
                vals.append('P')
        else:
            vals.append(k)
    return vals[:3]


def gen_program(node, rng, arch, cfg, depth=0):
    prog = []
    keys = list(node.order)
    n = rng.randrange(1, 12 if depth == 0 else 5)
    for _ in range(n):
        r = rng.random()
        if r < 0.12 or not keys:
            typ = rng.choice(all_types(arch) + ['ostr', 'oi64', 'atom'])
            vals = pick_validators(typ, None, None, rng, cfg)
            prog.append({'k': 'G', 'key': 'absent_' + S.rand_name(rng, {'xml': True}), 'type': typ, 'vals': vals})
            continue
        k = rng.choice(keys)
        if k in node.fields:
            f = node.fields[k]
            prog.append({'k': 'G', 'key': k, 'type': f.type, 'vals': pick_validators(f.type, f.tag, f, rng, cfg)})
        elif k in node.objs:
            prog.append({'k': 'O', 'key': k, 'sub': gen_program(node.objs[k], rng, arch, cfg, depth + 1)})
        else:
            schema = node.arrs[k + '\0schema']
            sub = []
            for _ in range(rng.randrange(1, 5)):
                sk, st = rng.choice(schema)
                sub.append({'k': 'G', 'key': sk, 'type': st, 'vals': pick_validators(st, None, None, rng, cfg)})
            prog.append({'k': 'AO', 'key': k, 'sub': sub})
    return prog


def flat_len(prog):
    return sum(1 + (flat_len(op['sub']) if 'sub' in op else 0) for op in prog)


def prog_text(prog):
    out = []
    for op in prog:
        hk = op['key'].encode('utf-8').hex()
        if op['k'] == 'G':
            out.append('G:%s:%s:%s' % (hk, op['type'], ','.join(op['vals'])) if op['vals'] else 'G:%s:%s' % (hk, op['type']))
        else:
            out.append('%s:%s:%d' % (op['k'], hk, flat_len(op['sub'])))
            out.extend(prog_text(op['sub']))
    return out


def evaluate(prog, node, path, log, errors, arch='json'):
    """log: list of expected records: ('rec', dict) literal | ('get', Field, present);  errors: list of (path tuple, [msgs], log index)"""
    for op in prog:
        k = op['key']
        if op['k'] == 'G':
            f = node.fields.get(k)
            if f is None:
                stub = Field(k, op['type'])
                stub.loaded, stub.value = False, SENT[op['type']]
                msgs = eval_validators(stub, op['vals'], False)
                if msgs:
                    errors.append((tuple(path + [k]), msgs, len(log)))
                log.append(('get', stub))
            else:
                msgs = eval_validators(f, op['vals'], True)
                if msgs:
                    errors.append((tuple(path + [k]), msgs, len(log)))
                log.append(('get', f))
        elif op['k'] == 'O':
            log.append(('rec', {'open': 'object'}))
            child = node.objs.get(k)
            if child is not None:
                evaluate(op['sub'], child, path + [k], log, errors, arch)
            log.append(('rec', {'close': 'object', 'ok': child is not None}))
        else:
            log.append(('rec', {'open': 'objarray'}))
            arr = node.arrs.get(k)
            if arr is not None:
                for i, el in enumerate(arr):
                    log.append(('rec', {'elem': i}))
                    if el.offend is not None:
                        continue                              # not an object: the element is skipped as a whole, the following ones keep their positions
                    evaluate(op['sub'], el, path + [k, i] + (['object'] if arch == 'xml' else []), log, errors, arch)
            log.append(('rec', {'close': 'objarray', 'ok': arr is not None}))


def compare_log(exp, got, upto=None):
    """returns None or (index, reason)"""
    if upto is not None:
        exp = exp[:upto]
    if len(exp) != len(got):
        return -1, 'number of log records %d, expected %d' % (len(got), len(exp))
    for i, (e, g) in enumerate(zip(exp, got)):
        if 'error' in g:
            return i, 'driver: ' + g['error']
        if e[0] == 'rec':
            if e[1] != g:
                return i, 'record %s, expected %s' % (g, e[1])
        else:
            why = match_field(e[1], g)
            if why:
                return i, 'field "%s" (%s, offences %s): %s' % (e[1].key, e[1].type, e[1].offences, why)
    return None


def norm_path(hexpath, sep='/'):
    p = bytes.fromhex(hexpath).decode('utf-8', 'replace')
    return tuple(x for x in p.split(sep) if x and not x.isdigit())


# ------------------------------------------------------------------ shared runner
SEP = {'json': '/', 'xml': '/', 'csv': '/', 'msgpack': '/'}


def run_field_cases(ck, rng, n, mk_cfg, variants=(('asan', 0.7), ('asan32', 0.3)), archs=('json', 'xml', 'csv', 'msgpack', 'msgpack', 'json')):
    """Generates n cases, runs them on drv_req and judges log + validation errors.  mk_cfg(rng, arch) -> cfg dict with
    offence_rate, classes, validators, validator_rate, strings, mis, ovf, maxerr, fresh"""
    from vlib import core
    from checks import c03
    import json as _json
    stats = {}

    def bump(k, d=1):
        stats[k] = stats.get(k, 0) + d

    for variant, share in variants:
        exe = c03.build_req(variant)
        lines, meta = [], {}
        for k in range(int(n * share)):
            arch = rng.choice(archs)
            cfg = mk_cfg(rng, arch)
            node = gen_node(rng, arch, cfg)
            prog = gen_program(node, rng, arch, cfg)
            ops = prog_text(prog)
            log, errors = [], []
            evaluate(prog, node, ['array', 'object'] if arch == 'xml' else [], log, errors, arch)
            doc = c03.render(arch, node.item(), rng if rng.random() < 0.7 else None, rng.randrange(0, 40))
            src = rng.choice([dict(src='mem'), dict(src='mem'), dict(src='sstream'), dict(src='slow', step=rng.choice([1, 3, 7, 31, 32, 33, 255, 256, 257]))])
            cid = 'f%d' % k
            line = 'op=run id=%s arch=%s doc=%s prog=%s mis=%s ovf=%s maxerr=%d fresh=0 %s' % (
                cid, arch, doc.hex(), ';'.join(ops), cfg.get('mis', 'skip'), cfg.get('ovf', 'skip'), cfg.get('maxerr', 0), ' '.join('%s=%s' % kv for kv in src.items()))
            lines.append(line)
            meta[cid] = (arch, cfg, log, errors, src, line, len(doc))
            bump('requests', len(log))
            for e in log:
                if e[0] == 'get':
                    if e[1].offences:
                        for c in e[1].offences:
                            bump('offence_%s_requests' % c)
                    elif not e[1].loaded:
                        bump('absent_requests')
            bump('expected_failing_validators', sum(len(m) for _, m, _ in errors))
        by, crashes = core.run_cases(exe, lines, variant)
        for ln, key, err, rc in crashes:
            ck.violation('crash/%s' % key, {'driver': 'drv_req', 'variant': variant, 'case': ln[:400000], 'stderr': err[-1500:]}, 'process died: ' + key)
        for cid, e in by.items():
            arch, cfg, log, errors, src, line, dl = meta[cid]
            if 'error' in e:
                ck.harness_error(e['error'])
                continue
            ck.case((arch, line[-300:], dl, variant), nontrivial=True)
            sfx = '/chunk32' if variant == 'asan32' else ''
            where = 'stream' if src['src'] != 'mem' else 'mem'
            pol = '%s-%s' % (cfg.get('mis', 'skip'), cfg.get('ovf', 'skip'))
            wit = {'driver': 'drv_req', 'variant': variant, 'case': line[:400000], 'event': {kk: str(vv)[:3000] for kk, vv in e.items()},
                   'expected_errors': str([(p, m) for p, m, _ in errors])[:2000]}
            res = e['res']
            # expected validation outcome: a "field" is a distinct path; XML paths carry no array positions
            def fid(p):
                return tuple(x for x in p if isinstance(x, str)) if arch == 'xml' else p
            paths = []
            merged = {}
            trigger = None
            maxerr = cfg.get('maxerr', 0)
            for p, msgs, idx in errors:
                p = fid(p)
                if p not in merged:
                    paths.append(p)
                    merged[p] = []
                    if maxerr and len(paths) == maxerr:
                        trigger = idx
                        merged[p].extend(msgs)
                        break
                merged[p].extend(msgs)
            if res['out'] == 'exc':
                ck.violation('%s/exception/%s:%s/%s/%s%s' % (arch, res.get('exc'), res.get('code'), pol, where, sfx), wit,
                             'valid document (offences only of the kinds whose policy is Skip) raised %s: %s' % (res.get('exc'), res.get('what')))
                continue
            bad = compare_log(log, e['log'], trigger)
            if bad:
                i, why = bad
                f = log[i][1] if 0 <= i < len(log) and log[i][0] == 'get' else None
                kind = 'count' if i < 0 else ('skipped-field' if (f and f.offences and not f.loaded) else 'container-with-offence' if (f and f.offences) else 'absent' if (f and not f.loaded) else 'neighbour')
                ck.violation('%s/%s/%s/%s%s' % (arch, kind, pol, where, sfx), wit, '%s %s: %s' % (arch, src, why))
                continue
            if trigger is None:
                want_tail = [424242, b'tail'.hex()] if arch != 'csv' else [b'424242'.hex(), b'tail'.hex()]
                if e['tail'] != want_tail:
                    ck.violation('%s/tail/%s/%s%s' % (arch, pol, where, sfx), wit, 'data after the object misread: %s' % e['tail'])
                    continue
            # validation errors
            def msg_ok(have, want):
                return len(have) == len(want) and all((h == w) if isinstance(w, str) else h.startswith(w[1]) for h, w in zip(have, want))
            got = {}
            for hp, msgs in (e['res'].get('verrs') or {}).items():
                raw = bytes.fromhex(hp).decode('utf-8', 'replace').split(SEP[arch])
                norm = tuple(x for x in raw if x and not x.isdigit())
                idx = tuple(int(x) for x in raw if x.isdigit())
                got.setdefault(norm, []).append((idx, [bytes.fromhex(m).decode('utf-8', 'replace') for m in msgs]))
            if (res['out'] == 'validation') != bool(merged):
                ck.violation('%s/validation-iff/%s%s' % (arch, where, sfx), wit, 'ValidationException %s but %d fields were expected to fail' % ('thrown' if res['out'] == 'validation' else 'not thrown', len(merged)))
                continue
            want = {}
            for p in paths:
                want.setdefault(tuple(x for x in p if isinstance(x, str)), []).append((tuple(x for x in p if not isinstance(x, str)), merged[p], p))
            if set(got) != set(want) or any(len(got[nm]) != len(want[nm]) for nm in want):
                ck.violation('%s/validation-fields/%s%s' % (arch, 'maxerr' if maxerr else 'all', sfx), wit, 'failing fields reported %s, expected %s' % (
                    sorted((nm, len(v)) for nm, v in got.items()), sorted((nm, len(v)) for nm, v in want.items())))
                continue
            for nm in want:
                gl = sorted(got[nm])
                wl = sorted(want[nm], key=lambda t: t[0])
                for (gi, have), (wi, wmsgs, p) in zip(gl, wl):
                    if msg_ok(have, wmsgs):
                        continue
                    if maxerr and p == paths[-1] and trigger is not None and have and len(have) < len(wmsgs) and msg_ok(have, wmsgs[:len(have)]):
                        ck.violation('%s/validation-messages/last-field-truncated-by-maxValidationErrors' % arch, wit,
                                     'field %s reported %s of its %d failing validators because the exception is raised at the first message of the last counted field' % ('/'.join(nm), have, len(wmsgs)))
                    else:
                        ck.violation('%s/validation-messages/%s%s' % (arch, 'maxerr' if maxerr else 'all', sfx), wit, 'field %s: messages %s, expected %s' % ('/'.join(nm), have, wmsgs))
                    break
            if merged:
                bump('validation_exceptions_checked')
    for k, v in stats.items():
        ck.cov[k] = ck.cov.get(k, 0) + v
