"""C03  Named fields load correctly in any request order, with absent and unread fields."""
import json
import random
import struct

from vlib import build, core
from oracles import render as R
from oracles import shapes as S

PID = "C03"
R.FLOAT_ALT = False
SENT = {'i64': 6510615555426900570, 'u64': 6510615555426900570, 'i32': 1515870810, 'u8': 90, 'f64': {'f64': '40934a0000000000'}, 'bool': True,
        'str': {'s': b'~sentinel~'.hex()}, 'wstr': {'s': b'~sentinel~'.hex()}, 'ostr': {'s': b'~sentinel~'.hex()}, 'oi64': 77, 'uptr': 1515870810, 'atom': 1515870810, 'tpms': {'tp': 5555}}
NULLABLE = ('ostr', 'oi64', 'uptr')


def build_req(variant='asan'):
    return build.build('drv_req', variant, ['drv_req.cpp'])


def prebuild():
    build_req('asan')
    build_req('asan32')


def rand_scalar(rng, ctx, arch):
    r = rng.random()
    if r < 0.3:
        return ('i', S.rand_int(rng, -(1 << 63), (1 << 63) - 1))
    if r < 0.4:
        return ('i', S.rand_int(rng, 0, (1 << 64) - 1))
    if r < 0.55:
        if arch == 'json':
            # doubles whose shortest decimal form RapidJSON's fast path converts exactly (all digits incl. a trailing ".0" < 2^53, |exp10| <= 15);
            # inexact conversion of other doubles is the subject of C08 / C01, not of key lookup
            d = (rng.getrandbits(49) >> rng.randrange(49)) / 10.0 ** rng.randrange(16) * rng.choice([1, -1])
            return ('f', struct.pack('>d', d).hex())
        return ('f', S.rand_f64(rng, {'nonfinite': False}))
    if r < 0.65:
        return ('b', rng.random() < 0.5)
    txt = S.rand_text(rng, ctx, 14)
    if rng.random() < 0.12:
        txt = ''.join(chr(S.rand_cp(rng, ctx)) for _ in range(rng.choice([200, 256, 300, 600])))
    if arch in ('xml', 'csv') and (txt == '' or txt.strip(' \t\n\r') != txt):
        txt = 'x' + txt + 'x'
    return ('s', txt)


def rand_object(rng, ctx, arch, depth=0, nmax=12):
    n = rng.randrange(1, nmax + 1)
    keys = []
    while len(keys) < n:
        k = S.rand_name(rng, {'xml': True})
        if k not in keys and k not in ('s1', 's2'):
            keys.append(k)
    items = []
    for k in keys:
        r = rng.random()
        if arch != 'csv' and depth < 2 and r < 0.15:
            items.append((k, rand_object(rng, ctx, arch, depth + 1, 5)))
        elif arch != 'csv' and r < 0.3:
            kind = rng.choice(['i', 'f', 'b', 's'])
            ln = rng.randrange(0, 6)
            if arch == 'xml' and ln == 0:
                ln = 1
            arr = []
            for _ in range(ln):
                v = rand_scalar(rng, ctx, arch)
                while v[0] != kind or (kind == 'i' and not (-(1 << 63) <= v[1] < (1 << 63))):
                    v = rand_scalar(rng, ctx, arch)
                arr.append(v)
            items.append((k, ('a', arr)))
        else:
            items.append((k, rand_scalar(rng, ctx, arch)))
    if arch == 'msgpack' and depth == 0 and rng.random() < 0.5:
        for _ in range(rng.randrange(1, 4)):
            ik = S.rand_int(rng, -(1 << 63), (1 << 63) - 1) if rng.random() < 0.5 else rng.choice([0, 1, 2, 7, 100, 127, 128, 255, 256, 1000, 40000, 65535, 70000, -1, -100, -128])
            if all(k != ('ki', ik) for k, _ in items):
                items.insert(rng.randrange(len(items) + 1), (('ki', ik), rand_scalar(rng, ctx, arch)))
    return ('o', items)


def type_for(v, rng):
    t = v[0]
    if t == 'i':
        x = v[1]
        opts = []
        if -(1 << 63) <= x < (1 << 63):
            opts += ['i64', 'oi64']
        if 0 <= x < (1 << 64):
            opts.append('u64')
        if -(1 << 31) <= x < (1 << 31):
            opts += ['i32', 'atom', 'uptr']
        if 0 <= x < 256:
            opts.append('u8')
        return rng.choice(opts)
    if t == 'f':
        return 'f64'
    if t == 'b':
        return 'bool'
    return rng.choice(['str', 'str', 'wstr', 'ostr'])


def desc_of(v, typ):
    t = v[0]
    if t == 'i':
        return v[1]
    if t == 'f':
        return {'f64': v[1]}
    if t == 'b':
        return v[1]
    return {'s': v[1].encode('utf-8').hex()}


def gen_program(rng, obj, arch, depth=0):
    """Returns (ops text list, expected log list)."""
    items = obj[1]
    by_key = {}
    for k, v in items:
        by_key.setdefault(k if isinstance(k, str) else k, v)
    ops, exp = [], []
    n = rng.randrange(1, 14 if depth == 0 else 5)
    str_keys = [k for k, _ in items if isinstance(k, str)]
    int_keys = [k for k, _ in items if not isinstance(k, str)]
    for _ in range(n):
        r = rng.random()
        if r < 0.12:
            # absent key
            k = 'absent_' + S.rand_name(rng, {'xml': True})
            if k in by_key:
                continue
            typ = rng.choice(list(SENT))
            ops.append('G:%s:%s' % (k.encode().hex(), typ))
            exp.append({'ok': False, 'v': SENT[typ], 'nullable': typ in NULLABLE})
        elif r < 0.22 and arch == 'msgpack':
            ik = rng.choice(int_keys)[1] if (int_keys and rng.random() < 0.8) else S.rand_int(rng, -1000, 1000)
            v = by_key.get(('ki', ik))
            # the same integer key may be addressed through any C++ integer type that can hold it
            kops = ['Gi'] + (['Gu'] if ik >= 0 else []) + (['Gh'] if 0 <= ik < 65536 else []) + (['Gw'] if 0 <= ik < 2 ** 32 else []) + (['Gb'] if -128 <= ik < 128 else [])
            kop = rng.choice(kops)
            if v is not None and v[0] in ('i', 'f', 'b', 's'):
                typ = type_for(v, rng)
                ops.append('%s:%d:%s' % (kop, ik, typ))
                exp.append({'ok': True, 'v': desc_of(v, typ)})
            elif v is None:
                typ = rng.choice(['i64', 'str', 'f64'])
                ops.append('%s:%d:%s' % (kop, ik, typ))
                exp.append({'ok': False, 'v': SENT[typ]})
        elif r < 0.3:
            ops.append('V')
            keys = []
            for k, _ in items:
                keys.append(k.encode().hex() if isinstance(k, str) else k[1])
            if arch == 'csv':
                keys += [b's1'.hex(), b's2'.hex()]      # the header row belongs to every row
            exp.append({'keys': keys})
        elif str_keys:
            k = rng.choice(str_keys)
            v = by_key[k]
            if arch in ('json', 'msgpack') and rng.random() < 0.12:
                # request with a target of another kind under MismatchedTypesPolicy::Skip: false, target untouched, nothing else disturbed
                if v[0] in ('o', 'a'):
                    typ = rng.choice(['i64', 'str', 'f64', 'bool', 'atom'])
                    ops.append('G:%s:%s' % (k.encode().hex(), typ))
                    exp.append({'ok': False, 'v': SENT[typ]})
                    continue
                if v[0] == 's':
                    typ = rng.choice(['i64', 'f64', 'bool', 'u8', 'atom'])
                    if arch == 'json' or True:
                        ops.append('G:%s:%s' % (k.encode().hex(), typ))
                        exp.append({'ok': False, 'v': SENT[typ]})
                        continue
                if v[0] in ('i', 'f', 'b'):
                    r2 = rng.random()
                    if r2 < 0.4:
                        ops.append('G:%s:str' % k.encode().hex())
                        exp.append({'ok': False, 'v': SENT['str']})
                    elif r2 < 0.7:
                        ops.append('O:%s:0' % k.encode().hex())
                        exp.append({'open': 'object'})
                        exp.append({'close': 'object', 'ok': False})
                    else:
                        ops.append('A:%s:2:i64' % k.encode().hex())
                        exp.append({'array': False})
                    continue
            if v[0] == 'o':
                sub_ops, sub_exp = gen_program(rng, v, arch, depth + 1)
                ops.append('O:%s:%d' % (k.encode().hex(), len(sub_ops)))
                ops.extend(sub_ops)
                exp.append({'open': 'object'})
                exp.extend(sub_exp)
                exp.append({'close': 'object', 'ok': True})
            elif v[0] == 'a':
                cnt = rng.randrange(0, len(v[1]) + 2)
                kind = v[1][0][0] if v[1] else 'i'
                typ = {'i': 'i64', 'f': 'f64', 'b': 'bool', 's': 'str'}[kind]
                ops.append('A:%s:%d:%s' % (k.encode().hex(), cnt, typ))
                exp.append({'elems': [{'ok': True, 'v': desc_of(x, typ)} for x in v[1][:cnt]]})
                exp.append({'array': True})
            else:
                typ = type_for(v, rng)
                ops.append('G:%s:%s' % (k.encode().hex(), typ))
                exp.append({'ok': True, 'v': desc_of(v, typ)})
    return ops, exp


SEP_CHARS = {'comma': ',', 'semicolon': ';', 'tab': '\t', 'space': ' ', 'pipe': '|'}


def render(arch, obj, rng, pad, sep='comma'):
    """Document = root array [object, 424242, "tail"]; CSV = header + object row + sentinel row."""
    if arch == 'csv':
        header = [k for k, _ in obj[1]] + ['s1', 's2']
        row = []
        for k, v in obj[1]:
            row.append(str(v[1]).lower() if v[0] == 'b' else R.fmt_float(v[1]) if v[0] == 'f' else str(v[1]))
        return R.render_csv(header, [row + ['', ''], [''] * len(obj[1]) + ['424242', 'tail']], sep=SEP_CHARS[sep], rng=rng).encode('utf-8')
    root = ('a', [obj, ('i', 424242), ('s', 'tail')])
    if arch == 'json':
        return (' ' * pad + R.render_json(root, rng)).encode('utf-8')
    if arch == 'xml':
        return R.render_xml(root, rng).encode('utf-8')
    return R.render_msgpack(root, (lambda kind, opts: rng.choice(opts)) if rng is not None else None)


def compare(exp, got):
    if len(exp) != len(got):
        return 'number of log records %d != expected %d' % (len(got), len(exp))
    for i, (e, g) in enumerate(zip(exp, got)):
        if 'error' in g:
            return 'driver: ' + g['error']
        if 'keys' in e:
            gk = g.get('keys')
            if gk != e['keys']:
                return 'op %d VisitKeys returned %s, document has %s' % (i, str(gk)[:200], str(e['keys'])[:200])
        elif 'elems' in e:
            if g.get('elems') != e['elems']:
                return 'op %d array elements %s, expected %s' % (i, str(g.get('elems'))[:200], str(e['elems'])[:200])
        elif 'ok' in e and 'v' in e:
            if g.get('ok') != e['ok']:
                return 'op %d returned %s, expected %s' % (i, g.get('ok'), e['ok'])
            if e.get('nullable') and g.get('v') is None:
                continue
            if g.get('v') != e['v']:
                return 'op %d target is %s, expected %s' % (i, str(g.get('v'))[:120], str(e['v'])[:120])
        else:
            for kk, vv in e.items():
                if g.get(kk) != vv:
                    return 'op %d record %s, expected %s' % (i, g, e)
    return None


def run(tier):
    ck = core.Check(PID, tier, 'exploration',
                    'random object documents (1..12 keys; values: integers incl. > INT64_MAX, doubles, booleans, strings incl. longer than the stream '
                    'buffer, nested arrays and objects; MessagePack also int64 keys) rendered by independent emitters, and random request programs over '
                    'the public scope API (keyed gets in any order, repeats, absent keys, nested object open / partial read, array open with partial '
                    'read, VisitKeys) executed by a scripted object that is element 0 of a root array followed by sentinels; oracle = dict semantics '
                    '(present key -> its value and true; absent key -> false and target unchanged; data after the object intact); 4 archives x memory '
                    'and stream kinds x 256-byte and hooked 32-byte reader buffers. distinct non-trivial = distinct (archive, document, program, source)',
                    ['optional / smart pointer targets of an absent key may either keep their value or be reset to null (both accepted)',
                     'XML/CSV documents do not contain empty or edge-blank strings (not distinguishable from null in these formats)',
                     'MessagePack over a streambuf without seek support may fail with a SerializationException when a value must be skipped or a key is requested out of order (counted as needs_seek_cases); wrong values are still violations',
                     'JSON doubles are restricted to those RapidJSON converts exactly (inexact conversion is a known finding of C01/C08)'])
    q = tier == 'quick'
    rng = random.Random(core.mix(ck.seed, 'c03'))
    n = 30000 if q else 1500000
    kinds_seen = {}
    for variant, share in (('asan', 0.7), ('asan32', 0.3)):
        exe = build_req(variant)
        lines, meta = [], {}
        for k in range(int(n * share)):
            arch = rng.choice(['json', 'xml', 'csv', 'msgpack', 'msgpack', 'csv'])
            ctx = {'xml': arch == 'xml', 'nonul': arch in ('csv', 'xml')}
            obj = rand_object(rng, ctx, arch)
            ops, exp = gen_program(rng, obj, arch)
            if not ops:
                continue
            sep = rng.choice(list(SEP_CHARS)) if (arch == 'csv' and rng.random() < 0.5) else 'comma'
            doc = render(arch, obj, rng if rng.random() < 0.7 else None, rng.randrange(0, 40), sep)
            src = rng.choice([dict(src='mem'), dict(src='sstream'), dict(src='slow', step=rng.choice([1, 3, 7, 31, 32, 33, 255, 256, 257])), dict(src='noseek', step=rng.choice([1, 5, 64]))])
            cid = 'c%d' % k
            line = 'op=run id=%s arch=%s doc=%s prog=%s sep=%s %s' % (cid, arch, doc.hex(), ';'.join(ops), sep, ' '.join('%s=%s' % kv for kv in src.items()))
            lines.append(line)
            meta[cid] = (arch, obj, ops, exp, src, line, len(doc))
            for o in ops:
                kinds_seen[o.split(':')[0]] = kinds_seen.get(o.split(':')[0], 0) + 1
        by, crashes = core.run_cases(exe, lines, variant)
        for ln, key, err, rc in crashes:
            ck.violation('crash/%s' % key, {'driver': 'drv_req', 'variant': variant, 'case': ln[:400000], 'stderr': err[-1500:]}, 'process died: ' + key)
        for cid, e in by.items():
            arch, obj, ops, exp, src, line, dl = meta[cid]
            if 'error' in e:
                ck.harness_error(e['error'])
                continue
            ck.case((arch, line[-300:], dl, variant), nontrivial=True)
            wit = {'driver': 'drv_req', 'variant': variant, 'case': line[:400000], 'event': {kk: str(vv)[:3000] for kk, vv in e.items()}, 'expected_log': json.dumps(exp)[:3000]}
            res = e['res']
            sfx = '/chunk32' if variant == 'asan32' else ''
            if res['out'] != 'ok':
                if src['src'] == 'noseek' and arch == 'msgpack' and (res.get('exc') or '').startswith('BitSerializer::'):
                    # skipping a value and out-of-order requests reposition the stream; on a streambuf without seek support the library
                    # reports that loudly (exception), which is not a misread
                    ck.count('needs_seek_cases')
                    continue
                ck.violation('%s/exception/%s:%s/%s%s' % (arch, res.get('exc'), res.get('code'), src['src'], sfx), wit, 'valid document and program raised %s: %s' % (res.get('exc'), res.get('what')))
                continue
            why = compare(exp, e['log'])
            if why is None:
                want_tail = [424242, b'tail'.hex()] if arch != 'csv' else [b'424242'.hex(), b'tail'.hex()]
                if e['tail'] != want_tail:
                    why = 'data after the object misread: %s' % e['tail']
            if why:
                kind = 'tail' if 'after the object' in why else 'keys' if 'VisitKeys' in why else 'absent' if 'expected False' in why or 'sentinel' in why else 'array' if 'array' in why else 'value'
                ck.violation('%s/%s/%s%s' % (arch, kind, 'stream' if src['src'] != 'mem' else 'mem', sfx), wit, '%s %s: %s' % (arch, src, why))
            elif len(ck.samples) < 6 and rng.random() < 0.005:
                ck.sample({'arch': arch, 'program': ';'.join(ops)[:300], 'document': doc_preview(arch, meta[cid]), 'source': src})
    ck.cov['program_op_kinds'] = kinds_seen
    int_key_cases(ck, rng, 3000 if q else 200000)
    return ck.finish(min_nontrivial=1000)


def doc_preview(arch, m):
    return m[5].split('doc=')[1][:160]


def replay(w):
    wit = w['witness']
    exe = build_req(wit.get('variant', 'asan'))
    ev, err, rc, bad = core.run_driver(exe, [wit['case']], wit.get('variant', 'asan'))
    print(ev, err[-2000:])
    return 0


def int_key_cases(ck, rng, n, prefix='intkey'):
    """MessagePack maps with integer keys in every legal width / family, members addressed through int64_t, uint64_t, uint32_t, uint16_t and
    int8_t key types (shared by C03 and C07): every present key must be found whatever format carries it."""
    from oracles import msgpack_ref as M
    exe = build_req('asan')
    lines, meta = [], {}
    for i in range(n):
        nk = rng.randrange(1, 6)
        keys = []
        while len(keys) < nk:
            ik = rng.choice([0, 1, 2, 7, 31, 32, 100, 127, 128, 200, 255, 256, 1000, 32767, 32768, 40000, 65535, 65536, 2 ** 31 - 1, 2 ** 31, 2 ** 32 - 1, 2 ** 32, 2 ** 63 - 1, -1, -32, -33, -100, -128, -129, -32768, -2 ** 31, -2 ** 63,
                             S.rand_int(rng, -(1 << 63), (1 << 63) - 1)])
            if ik not in keys:
                keys.append(ik)
        vals = [S.rand_int(rng, -2 ** 31, 2 ** 31 - 1) for _ in keys]
        # every key in a random legal integer format
        def enc_key(k):
            fmts = M.int_formats(k)
            return M._enc_int(k, rng.choice(fmts))
        body = bytes([0x80 | nk]) + b''.join(enc_key(k) + M.encode({'t': 'int', 'v': v}) for k, v in zip(keys, vals))
        doc = b'\x93' + body + M.encode({'t': 'int', 'v': 424242}) + M.encode({'t': 'str', 'v': b'tail'})
        ops, exp = [], []
        order = list(range(nk))
        rng.shuffle(order)
        for j in order + [rng.randrange(nk)]:
            ik = keys[j]
            kops = ['Gi'] + (['Gu'] if ik >= 0 else []) + (['Gh'] if 0 <= ik < 65536 else []) + (['Gw'] if 0 <= ik < 2 ** 32 else []) + (['Gb'] if -128 <= ik < 128 else [])
            ops.append('%s:%d:i32' % (rng.choice(kops), ik))
            exp.append({'ok': True, 'v': vals[j]})
        cid = '%s%d' % (prefix, i)
        src = rng.choice(['mem', 'sstream', 'slow'])
        line = 'op=run id=%s arch=msgpack doc=%s prog=%s src=%s step=3' % (cid, doc.hex(), ';'.join(ops), src)
        lines.append(line)
        meta[cid] = (exp, line)
    by, crashes = core.run_cases(exe, lines, 'asan')
    for ln, key, err, rc in crashes:
        ck.violation('crash/%s' % key, {'driver': 'drv_req', 'variant': 'asan', 'case': ln[:400000], 'stderr': err[-1500:]}, 'process died: ' + key)
    for cid, e in by.items():
        exp, line = meta[cid]
        if 'error' in e:
            ck.harness_error(e['error'])
            continue
        ck.case(('intkey', line[-300:]), nontrivial=True)
        wit = {'driver': 'drv_req', 'variant': 'asan', 'case': line, 'event': {kk: str(vv)[:2000] for kk, vv in e.items()}, 'expected_log': json.dumps(exp)}
        if e['res']['out'] != 'ok':
            ck.violation('msgpack/integer-key/exception:%s' % e['res'].get('code'), wit, 'map with integer keys raised %s' % e['res'].get('what'))
            continue
        why = compare(exp, e['log'])
        if why:
            ck.violation('msgpack/integer-key/not-found-or-wrong-value', wit, 'member under an integer key: ' + why)
        elif e['tail'] != [424242, b'tail'.hex()]:
            ck.violation('msgpack/integer-key/tail', wit, 'data after the map misread')
    ck.cov['integer_key_cases'] = ck.cov.get('integer_key_cases', 0) + len(by)
