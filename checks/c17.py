"""C17  Validation reports exactly the failing fields and rules, after a full load."""
import random

from vlib import core
from checks import c03, fields as F
from oracles import render as R

PID = 'C17'


def prebuild():
    c03.prebuild()


def mk_cfg(rng, arch):
    cfg = {'offence_rate': rng.choice([0.0, 0.1, 0.3]), 'classes': {'ovf', 'mis', 'null'}, 'mis': 'skip', 'ovf': 'skip',
           'validators': ['R', 'R', 'Rc', 'L', 'G', 'G', 'N', 'X', 'E', 'P'], 'validator_rate': rng.choice([0.3, 0.7, 1.0]), 'strings': True}
    if rng.random() < 0.35:
        cfg['maxerr'] = rng.choice([1, 1, 2, 3, 5, 50])
    return cfg


def run(tier):
    R.FLOAT_ALT = False
    ck = core.Check(PID, tier, 'exploration',
                    'typed objects (scalars of 8 integer widths / float / double / bool / strings, sequences, nested objects, arrays of objects, e-mail and phone '
                    'strings) with random offences and absent members are loaded by a scripted object that attaches 0..3 validators to every request, in random '
                    'order with repeats: Required (default and custom message), Range<T> with bounds at / next to the loaded value, MinSize / MaxSize at / next to '
                    'the actual size, Email, PhoneNumber and a custom functor, with and without maxValidationErrors. An independent evaluation of the documented '
                    'rules predicts the exact map path -> messages; oracle: ValidationException iff the prediction is non-empty, same set of paths (array positions '
                    'aside), same messages in declaration order, log of loaded values complete and correct (fields that pass are loaded), sentinels after the '
                    'object intact; with maxValidationErrors=N the first N failing fields in load order and nothing executed after the N-th. '
                    'distinct non-trivial = distinct (archive, document, program, options, source)',
                    ['Range on floating targets: only the message prefix is compared', 'Email / PhoneNumber are exercised with clear-cut valid / invalid samples only',
                     'paths are compared after removing all-digit segments (array positions)'])
    q = tier == 'quick'
    rng = random.Random(core.mix(ck.seed, 'c17'))
    F.run_field_cases(ck, rng, 20000 if q else 1000000, mk_cfg)
    return ck.finish(min_nontrivial=1000)


def replay(w):
    return c03.replay(w)
