"""C20  Every failure surfaces as a catchable exception: no terminate, no leak."""
import random

from vlib import core
from checks import doccommon as D
from checks.c02 import death_key

PID = 'C20'

SCENARIOS_QUICK = [
    ('msgpack', 'zoo', dict(maxsize=1)), ('msgpack', 'dyn', {}), ('msgpack', 'm_i64_str', dict(maxsize=3)), ('msgpack', 'v_bytes', dict(maxsize=3)), ('msgpack', 'wrappers', dict(maxsize=2)),
    ('json', 'wrappers', dict(maxsize=2)), ('json', 'maps', dict(maxsize=2)), ('json', 'v_str', dict(maxsize=3)),
    ('xml', 'containers', dict(maxsize=2)), ('xml', 'derived', dict(maxsize=2)),
    ('csv', 'csvrows', dict(maxsize=3)), ('csv', 'csvmaps', dict(maxsize=3)),
]
MIDSAVE = [
    # (arch, type, options that make the library detect an error in the middle of saving, description)
    ('csv', 'csvmaps', dict(ragged=1, maxsize=4), 'rows with different number of values'),
    ('csv', 'csvmaps', dict(ragged=1, maxsize=4, sink='sstream'), 'rows with different number of values (stream)'),
    ('csv', 'csvrows', dict(badutf=1, sink='sstream', enc='utf16le', utf='throw', maxsize=3), 'text that cannot be encoded to UTF-16 under ThrowError'),
    ('csv', 'csvrows', dict(badutf=1, sink='sstream', enc='utf32be', utf='throw', bom=1, maxsize=3), 'text that cannot be encoded to UTF-32 under ThrowError'),
    ('csv', 'csvrows', dict(sep='bad', sink='sstream', maxsize=3), 'unsupported separator (stream)'),
    ('csv', 'csvrows', dict(sep='bad', sink='sstream', enc='utf16le', bom=1, maxsize=3), 'unsupported separator (UTF-16 stream with BOM)'),
    ('csv', 'csvmaps', dict(sep='bad', maxsize=3), 'unsupported separator (memory)'),
    ('msgpack', 'flaky', dict(maxsize=3), 'more fields written than were counted'),
    ('msgpack', 'flaky', dict(maxsize=3, sink='sstream'), 'more fields written than were counted (stream)'),
    ('json', 'v_enum', dict(badenum=1, maxsize=4), 'enum value that is not registered'),
    ('xml', 'v_enum', dict(badenum=1, maxsize=4, sink='sstream'), 'enum value that is not registered'),
    ('msgpack', 'v_enum', dict(badenum=1, maxsize=4), 'enum value that is not registered'),
    ('json', 'v_f64', dict(nonfinite=1, maxsize=30), 'NaN / Infinity saved to JSON'),
    ('json', 'v_f64', dict(nonfinite=1, maxsize=30, sink='sstream', enc='utf16be'), 'NaN / Infinity saved to JSON (stream)'),
    ('json', 'v_f64', dict(nonfinite=1, maxsize=30, sink='sstream', fmt=1, padc='s', padn=2), 'NaN / Infinity saved to formatted JSON (stream)'),
    ('json', 'v_f64', dict(nonfinite=1, maxsize=30, sink='mem', fmt=1, padc='t', padn=1), 'NaN / Infinity saved to formatted JSON (memory)'),
    ('json', 'containers', dict(nonfinite=1, maxsize=12, sink='sstream', fmt=1, enc='utf32le', bom=1), 'NaN / Infinity inside a class saved to formatted JSON (UTF-32 stream)'),
    ('json', 'v_str', dict(badutf=1, sink='sstream', enc='utf16le', utf='throw', maxsize=3), 'JSON string with invalid UTF-8 to a UTF-16 stream'),
]


def prebuild():
    D.build_doc('asan')


def run(tier):
    ck = core.Check(PID, tier, 'fault_enumeration',
                    'for each scenario (save and load of generated documents in all four archives, memory and stream) every fault index is '
                    'enumerated, one forked child per index, with LeakSanitizer at the normal exit of the child: (1) input truncated to every length, '
                    '(2) the k-th operator new throws std::bad_alloc for every k up to the number of allocations of the fault-free run (save and load), '
                    '(3) the input streambuf fails (EOF / throws, exceptions mask on/off) and the output streambuf fails (overflow fails / throws, mask '
                    'on/off) at every byte offset, (4) errors detected by the library in the middle of a save (ragged CSV rows, unencodable text, '
                    'more fields than counted, unregistered enum, non-finite float to JSON). Outcome must be "completed" or "std::exception caught at the call site"; '
                    'terminate, sanitizer report, leak, or an accepted strict MsgPack prefix are violations. distinct non-trivial = distinct (scenario, fault kind, index)',
                    ['allocation failure inside RapidJSON (CrtAllocator) and pugixml (malloc) is not injected', 'an output stream that fails without exceptions mask may leave the call returning normally if the stream reports fail()/bad()'])
    exe = D.build_doc('asan')
    rng = random.Random(core.mix(ck.seed, 'c20'))
    q = tier == 'quick'
    scen = list(SCENARIOS_QUICK)
    if not q:
        for arch, types in D.TYPES.items():
            for t in types:
                if t != 'flaky':
                    scen.append((arch, t, dict(maxsize=2)))
        scen = scen * 2
    # reference runs
    refs = []
    lines = []
    for i, (arch, typ, kw) in enumerate(scen):
        seed = rng.randrange(1, 2 ** 62)
        lines.append(D.case_line('save', arch, typ, 'ref%d' % i, seed=seed, sink='mem', meter=1, **kw))
        refs.append([arch, typ, kw, seed, None, None, None])
    by, crashes = core.run_cases(exe, lines, 'asan')
    lines = []
    for i, r in enumerate(refs):
        e = by.get('ref%d' % i)
        if not e or e.get('out') != 'ok':
            continue
        r[4] = bytes.fromhex(e['bytes'])
        r[5] = e['alloc']['count']
        lines.append(D.case_line('load', r[0], r[1], 'refl%d' % i, doc=e['bytes'], src='mem', meter=1, nodesc=1))
    by2, _ = core.run_cases(exe, lines, 'asan')
    for i, r in enumerate(refs):
        e = by2.get('refl%d' % i)
        if e and e.get('out') == 'ok':
            r[6] = e['alloc']['count']
    lines, meta = [], {}
    k = 0

    def add(line, info):
        nonlocal k
        cid = 'f%d' % k
        k += 1
        lines.append(line.replace('id=ID', 'id=' + cid))
        meta[cid] = info + (lines[-1],)

    per_scen = {}
    for i, (arch, typ, kw, seed, doc, ns, nl) in enumerate(refs):
        if doc is None or nl is None:
            ck.count('scenario_reference_run_failed')
            continue
        name = '%s/%s#%d' % (arch, typ, i)
        per_scen[name] = {'doc_bytes': len(doc), 'allocs_save': ns, 'allocs_load': nl}
        maxlen = 700 if q else 3000
        cuts = range(len(doc)) if len(doc) <= maxlen else sorted(rng.sample(range(len(doc)), maxlen))
        # (1) truncation
        for c in cuts:
            src = dict(src='mem') if c % 2 == 0 else dict(src='slow', step=rng.choice([1, 7, 300]))
            add(D.case_line('load', arch, typ, 'ID', doc=doc[:c].hex(), isolate=1, lsan=1, nodesc=1, **src), ('trunc', arch, typ, c, len(doc)))
        # (2) allocation failures
        kmax_s = min(ns, 600 if q else 5000)
        for a in range(1, kmax_s + 1):
            sink = 'mem' if a % 2 else 'sstream'
            add(D.case_line('save', arch, typ, 'ID', seed=seed, sink=sink, failalloc=a, isolate=1, lsan=1, **kw), ('alloc-save', arch, typ, a, ns))
        kmax_l = min(nl, 600 if q else 5000)
        for a in range(1, kmax_l + 1):
            src = dict(src='mem') if a % 2 else dict(src='sstream')
            add(D.case_line('load', arch, typ, 'ID', doc=doc.hex(), failalloc=a, isolate=1, lsan=1, nodesc=1, **src), ('alloc-load', arch, typ, a, nl))
        # (3) stream failures at every offset
        for c in cuts:
            mode = c % 4
            add(D.case_line('load', arch, typ, 'ID', doc=doc.hex(), src='failin', failat=c, failmode=mode & 1, excmask=mode >> 1, isolate=1, lsan=1, nodesc=1), ('in-fail', arch, typ, c, mode))
            add(D.case_line('save', arch, typ, 'ID', seed=seed, sink='failout', failat=c, failmode=mode & 1, excmask=mode >> 1, isolate=1, lsan=1, **kw), ('out-fail', arch, typ, c, mode))
    # (4) errors detected in the middle of saving
    for arch, typ, kw, what in MIDSAVE:
        for rep in range(12 if q else 200):
            add(D.case_line('save', arch, typ, 'ID', seed=rng.randrange(1, 2 ** 62), isolate=1, lsan=1, **kw), ('midsave', arch, typ, what, json_flags(kw)))
    by, crashes = core.run_cases(exe, lines, 'asan')
    for ln, key, err, rc in crashes:
        ck.harness_error('driver died outside a child: %s %s' % (key, ln[:200]))
    hist = {}
    midsave_seen = {}
    for cid, e in by.items():
        info = meta[cid]
        kind, arch, typ = info[0], info[1], info[2]
        line = info[-1]
        wit = {'driver': 'drv_doc', 'variant': 'asan', 'case': line[:400000], 'fault': list(info[:-1])}
        if 'error' in e:
            ck.harness_error(e['error'])
            continue
        ck.case((kind, arch, typ, info[3], str(info[4])[:40]), nontrivial=True)
        out = e.get('out')
        hist['%s/%s/%s' % (kind, arch, out if out != 'exc' else 'exc:' + e.get('exc', '?'))] = hist.get('%s/%s/%s' % (kind, arch, out if out != 'exc' else 'exc:' + e.get('exc', '?')), 0) + 1
        if out == 'died':
            if e.get('kind') == 'wallclock':
                ck.inconc('wall-clock watchdog', wit)
                continue
            ck.violation('%s/%s' % (kind, death_key(arch, e)), dict(wit, stderr=e.get('stderr', '')[:3000]), '%s fault #%s: child died (%s) - %s %s' % (kind, info[3], e.get('death'), arch, typ))
            continue
        if out == 'exc' and e.get('exc') == 'non-std':
            ck.violation('%s/non-std-exception/%s' % (kind, arch), wit, 'exception not derived from std::exception')
            continue
        if kind == 'trunc' and arch == 'msgpack' and out == 'ok':
            ck.violation('trunc/msgpack-prefix-accepted/%s' % typ, wit, 'strict prefix of %d/%d bytes accepted' % (info[3], info[4]))
        if kind == 'out-fail' and out == 'ok':
            mode = info[4]
            if mode >> 1:
                ck.violation('out-fail/exception-mask-ignored/%s' % arch, wit, 'output stream with exceptions mask failed at byte %d but SaveObject returned normally' % info[3])
            elif not e.get('stream_failed'):
                ck.violation('out-fail/silent/%s' % arch, wit, 'output stream failed at byte %d, SaveObject returned normally and the stream reports good()' % info[3])
        if kind == 'midsave':
            d = midsave_seen.setdefault('%s/%s/%s' % (arch, typ, info[3]), {'exc': 0, 'ok': 0})
            d['exc' if out == 'exc' else 'ok'] += 1
    # a mid-save error must surface as an exception at least in the cases where it was actually provoked: every scenario must have thrown
    for name, d in midsave_seen.items():
        if d['exc'] == 0:
            arch, typ, what = name.split('/', 2)
            ck.violation('midsave/not-reported/%s/%s' % (arch, what[:40]), {'driver': 'drv_doc', 'variant': 'asan', 'case': [meta[c][-1] for c in meta if meta[c][0] == 'midsave' and meta[c][1] == arch and meta[c][3] == what][0]},
                         'scenario "%s" (%s %s) never raised an exception in %d saves' % (what, arch, typ, d['ok']))
    # steady-state leak monitor for the error paths of saving and loading: each failing operation is repeated 6 times in one process and the live heap
    # bytes are sampled after every repetition; constant growth over the last repetitions is a leak (independent of LeakSanitizer's reachability scan)
    probes, pmeta = [], {}
    pk = 0
    for arch, typ, kw, what in MIDSAVE:
        for rep in range(2):
            cid = 'lp%d' % pk
            pk += 1
            probes.append(D.case_line('save', arch, typ, cid, seed=rng.randrange(1, 2 ** 62), leakprobe=6, **kw))
            pmeta[cid] = ('midsave', arch, typ, what, probes[-1])
    for i, (arch, typ, kw, seed, doc, ns, nl) in enumerate(refs):
        if doc is None or len(doc) < 4:
            continue
        for cut in (1, len(doc) // 2, len(doc) - 1):
            cid = 'lp%d' % pk
            pk += 1
            probes.append(D.case_line('load', arch, typ, cid, doc=doc[:cut].hex(), src=rng.choice(['mem', 'sstream']), nodesc=1, leakprobe=6))
            pmeta[cid] = ('trunc-load', arch, typ, 'truncated at %d' % cut, probes[-1])
    pby, pcr = core.run_cases(exe, probes, 'asan')
    for ln, key, err, rc in pcr:
        ck.violation('leakprobe/crash/%s' % key, {'driver': 'drv_doc', 'variant': 'asan', 'case': ln[:4000], 'stderr': err[-1500:]}, 'process died in the leak probe: ' + key)
    for cid, e in pby.items():
        kind, arch, typ, what, line = pmeta[cid]
        ck.case(('leakprobe', kind, arch, typ, what, cid), nontrivial=True)
        lv = e.get('live_after') or []
        if len(lv) >= 5:
            d = [lv[j + 1] - lv[j] for j in range(len(lv) - 1)]
            ck.cov['leak_probe_max_late_growth'] = max(ck.cov.get('leak_probe_max_late_growth', 0), max(d[-3:]))
            if min(d[-3:]) > 0:
                ck.violation('leakprobe/%s/%s/%s' % (kind, arch, what[:50]), {'driver': 'drv_doc', 'variant': 'asan', 'case': line[:4000], 'live_bytes_after_each_repetition': lv, 'last': e.get('last')},
                             '%s (%s %s): live heap grows on every repetition of the failing operation (last growths %s bytes)' % (what, arch, typ, d[-3:]))
    ck.cov['leak_probes'] = len(pby)
    ck.cov['scenarios'] = per_scen
    ck.cov['outcome_histogram'] = hist
    ck.cov['midsave'] = midsave_seen
    ck.sample({'scenario': 'msgpack zoo', 'fault': 'truncation at every length 0..len-1, one child each, LSan at exit', 'expected': 'exception'})
    ck.sample({'scenario': 'json wrappers', 'fault': 'k-th operator new throws bad_alloc, k=1..N', 'expected': 'completed or std::exception, no leak'})
    return ck.finish(min_nontrivial=2000)


def json_flags(kw):
    return ','.join('%s=%s' % kv for kv in sorted(kw.items()))


def replay(w):
    wit = w['witness']
    exe = D.build_doc('asan')
    ev, err, rc, bad = core.run_driver(exe, [wit['case']], 'asan')
    print(ev, err[-2000:])
    return 0
