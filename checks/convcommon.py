"""Shared helpers for the conversion checks (C04 direct part, C14, C15, C16)."""
from fractions import Fraction

from vlib import build, core


def build_conv(variant='ubsan'):
    return build.build('drv_conv', variant, ['drv_conv.cpp'], libs=(), need_lib=False)


def run_sweeps(ck, exe, lines, variant, driver='drv_conv', keyprefix=''):
    """Runs in-driver-oracle sweep ops; converts reported failures and sanitizer crashes into violations.
    Returns dict id->event."""
    by_id, crashes = core.run_cases(exe, lines, variant)
    line_by_id = {core._line_id(l): l for l in lines}
    for ln, key, err, rc in crashes:
        ck.violation(keyprefix + 'sanitizer/' + key, {'driver': driver, 'variant': variant, 'case': ln, 'stderr': err[-1500:]},
                     'process died (rc=%s): %s' % (rc, key))
    for i, e in by_id.items():
        if 'error' in e:
            ck.harness_error('driver error for %s: %s' % (line_by_id.get(i), e['error']))
            continue
        ck.add_counts(e.get('calls', 0))
        for f in e.get('fails', []):
            ck.violation(keyprefix + f['key'], {'driver': driver, 'variant': variant, 'case': line_by_id.get(i), 'detail': f}, f['what'])
    return by_id


# ---------------------------------------------------------------- exact binary floating point rounding (for float32 targets)
def round_to_binary(q, mant_bits, emin, emax):
    """Correctly rounded (nearest-even) value of Fraction q as a Fraction, or 'inf' on overflow.
    mant_bits: 24/53; emin: minimum exponent of the least significant bit (-149 / -1074); emax: 127/1023."""
    if q == 0:
        return Fraction(0)
    sign = -1 if q < 0 else 1
    a = abs(q)
    # find e with 2^e <= a < 2^(e+1)
    e = a.numerator.bit_length() - a.denominator.bit_length()
    if Fraction(2) ** e > a:
        e -= 1
    elif Fraction(2) ** (e + 1) <= a:
        e += 1
    lsb = max(e - (mant_bits - 1), emin)
    scaled = a / (Fraction(2) ** lsb)
    n = scaled.numerator // scaled.denominator
    rem = scaled - n
    if rem > Fraction(1, 2) or (rem == Fraction(1, 2) and n % 2 == 1):
        n += 1
    val = n * (Fraction(2) ** lsb)
    if val >= Fraction(2) ** (emax + 1):
        return 'inf'
    return sign * val


def days_from_civil(y, m, d):
    """Proleptic Gregorian day number relative to 1970-01-01, via CPython datetime over one 400-year cycle."""
    import datetime
    era, yoe = divmod(y - 2000, 400)
    base = datetime.date(2000 + yoe, m, d).toordinal() - datetime.date(1970, 1, 1).toordinal()
    return base + era * 146097


def is_leap(y):
    return (y % 4 == 0 and y % 100 != 0) or y % 400 == 0


def days_in_month(y, m):
    return [31, 29 if is_leap(y) else 28, 31, 30, 31, 30, 31, 31, 30, 31, 30, 31][m - 1]
