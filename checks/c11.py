"""C11  Transcoding valid Unicode text between UTF-8/16/32 is exact and reversible."""
import random

from vlib import core
from checks import utfcommon as U

PID = 'C11'


def prebuild():
    U.build_utf('ubsan')
    U.build_utf('asan')


def run(tier):
    ck = core.Check(PID, tier, 'exploration',
                    'exhaustive: every Unicode scalar value x 7 encoder classes x 2 policies through Decode/Encode paths and '
                    'Convert::To, appended to a non-empty output, judged by an arithmetic reference that is itself compared with '
                    'CPython codecs on the whole code space; plus random/adversarial sequences judged by CPython codecs. '
                    'non-trivial = distinct (code point) in the sweep, distinct (text, from, to, path, policy) for sequences',
                    ['CPython codecs implement the Unicode encoding forms', 'little-endian host'])
    exe_u = U.build_utf('ubsan')
    exe_a = U.build_utf('asan')
    seed = ck.seed

    # 1. the reference encoder itself vs CPython codecs over the entire code space
    lines, meta = [], {}
    step = 0x2000
    for enc in U.ENC5:
        for lo in range(0, 0x110000, step):
            i = 'r%s-%x' % (enc, lo)
            lines.append('op=dumpref id=%s enc=%s lo=%d hi=%d' % (i, enc, lo, lo + step))
            meta[i] = (enc, lo)
    ev = U.run_stage(ck, exe_u, lines, 'ubsan', 'dumpref')
    refok = 0
    for e in ev:
        enc, lo = meta[e['id']]
        want = ''.join(chr(c) for c in range(lo, lo + step) if U.is_scalar(c)).encode(U.ENC_PY[enc])
        if bytes.fromhex(e['out']) != want:
            ck.harness_error('in-driver reference encoder disagrees with CPython codec %s at block %x' % (enc, lo))
        else:
            refok += 1
    ck.cov['reference_blocks_crosschecked_with_cpython'] = refok

    # 2. exhaustive sweep
    lines = []
    blk = 0x400
    for lo in range(0, 0x110000, blk):
        lines.append('op=sweep11 id=s%x lo=%d hi=%d' % (lo, lo, lo + blk))
    ev = U.run_stage(ck, exe_u, lines, 'ubsan', 'sweep11')
    checked = calls = 0
    for e in ev:
        checked += e['checked']
        calls += e['calls']
        for f in e['fails']:
            key = 'sweep/%s->%s/%s' % (f['from'], f['to'], f['path'])
            ck.violation(key, {'driver': 'drv_utf', 'variant': 'ubsan', 'case': 'op=sweep11 lo=%d hi=%d' % (f['cp'], f['cp'] + 1), 'detail': f},
                         'U+%04X %s->%s via %s (%s): %s' % (f['cp'], f['from'], f['to'], f['path'], f['policy'], f['why']))
    ck.add_counts(calls)
    ck.cov['scalars_checked'] = checked
    ck.cov['library_calls_in_sweep'] = calls
    ck.exhaustive = checked == 1112064
    for cp in range(0, 0x110000, 0x11):
        if U.is_scalar(cp):
            ck.distinct.add(cp)
    ck.cov['distinct_note'] = 'distinct set sampled every 17th code point to bound memory; scalars_checked is the full count'
    ck.sample({'sweep_block': 'U+0000..U+03FF', 'checks_per_scalar': 'all (from,to) over utf8/16le/16be/32le/32be/16/32, decode and encode paths, Skip and ThrowError, output appended to a non-empty string'})

    # 3. sequences judged by CPython codecs (asan build)
    nseq = 1500 if tier == 'quick' else 60000
    rng = random.Random(core.mix(seed, 'c11seq'))
    lines, meta = [], {}
    maxlen = 300 if tier == 'quick' else 4096
    for k in range(nseq):
        text = U.rand_text(rng, maxlen if rng.random() < 0.1 else 40)
        pre = U.rand_text(rng, 6)
        f = rng.choice(list(U.ENC_PY))
        t = rng.choice([e for e in U.ENC_PY if e != f and not (U.WIDTH[e] == U.WIDTH[f] and e in ('utf16', 'utf32') and f in ('utf16', 'utf32'))])
        paths = ['decode']
        if f in U.NATIVE and U.WIDTH[f] != U.WIDTH[t]:
            paths.append('encode')
        if f in ('utf8', 'utf16', 'utf32') and t in ('utf8', 'utf16', 'utf32'):
            paths.append('api')
        path = rng.choice(paths)
        pol = rng.choice(['skip', 'throw'])
        i = 'q%d' % k
        src = text.encode(U.ENC_PY[f])
        preb = pre.encode(U.ENC_PY[t])
        lines.append('op=transcode id=%s src=%s from=%s to=%s path=%s policy=%s pre=%s' % (i, src.hex(), f, t, path, pol, preb.hex()))
        meta[i] = (text, pre, f, t, path, pol, lines[-1])
    ev = U.run_stage(ck, exe_a, lines, 'asan', 'transcode-sequences')
    for e in ev:
        text, pre, f, t, path, pol, line = meta[e['id']]
        want = (pre + text).encode(U.ENC_PY[t])
        got = bytes.fromhex(e['out'])
        n_units = len(text.encode(U.ENC_PY[f])) // U.WIDTH[f]
        ck.case((text, f, t, path, pol), nontrivial=len(text) > 0)
        why = None
        if e['threw'] or e['ec'] != 0:
            why = 'valid text rejected: ec=%s exc=%s' % (e['ec'], e['exc'])
        elif got != want:
            why = 'output differs from the standard encoding form'
        elif e['count'] != 0:
            why = 'non-zero error count %d' % e['count']
        elif e['iter'] != n_units:
            why = 'iterator %d not at end of input %d' % (e['iter'], n_units)
        if why:
            ck.violation('seq/%s->%s/%s' % (f, t, path), {'driver': 'drv_utf', 'variant': 'asan', 'case': line, 'event': e}, why)
        # reversibility: decode library output with CPython and compare
        if len(ck.samples) < 6 and text:
            ck.sample({'text_codepoints': [hex(ord(c)) for c in text[:12]], 'from': f, 'to': t, 'path': path, 'policy': pol, 'out': e['out'][:64]})
    return ck.finish(min_nontrivial=1000)


def replay(w):
    wit = w['witness']
    exe = U.build_utf(wit.get('variant', 'asan'))
    ev, err, rc, bad = core.run_driver(exe, [wit['case']], wit.get('variant', 'asan'))
    print(ev, err[-2000:])
    return 0
