"""C18  Loading into a populated target gives the same result as into a fresh one."""
import json
import random

from vlib import core
from checks import doccommon as D, c03
from checks.fields import hs
from oracles import render as R

PID = 'C18'


def prebuild():
    D.build_doc('asan')
    c03.build_req('asan')


SKIP_TYPES = {'flaky'}
KEYPOOL = ['a', 'b', 'c', 'd', 'e', 'f', 'Ж', 'k7', 'zz']


def rand_map(rng, kind, arch):
    n = rng.randrange(1 if arch == 'xml' else 0, 6)
    keys = rng.sample(KEYPOOL, n)
    out = {}
    for k in keys:
        if kind == 'si':
            out[k] = rng.randrange(-1000, 1000)
        elif kind == 'ss':
            out[k] = 'v%d' % rng.randrange(100)
        else:
            out[k] = [rng.randrange(-9, 10) for _ in range(rng.randrange(1 if arch == 'xml' else 0, 5))]
    return out


def map_item(m, kind, rng):
    items = []
    keys = list(m)
    rng.shuffle(keys)
    for k in keys:
        v = m[k]
        if v is None:
            items.append((k, ('n',)))          # null: the value is reported as not loaded
        else:
            items.append((k, ('i', v) if kind == 'si' else ('s', v) if kind == 'ss' else ('a', [('i', x) for x in v])))
    return ('o', items)


def default_of(kind):
    return 0 if kind == 'si' else '' if kind == 'ss' else []


def map_desc(m, kind):
    return sorted(json.dumps([hs(k), (v if kind != 'ss' else hs(v))]) for k, v in m.items())


def render_root(arch, item, rng):
    if arch == 'json':
        return R.render_json(item, rng).encode('utf-8')
    if arch == 'xml':
        return R.render_xml(item, rng).encode('utf-8')
    return R.render_msgpack(item, (lambda kind, opts: rng.choice(opts)) if rng.random() < 0.5 else None)


def run(tier):
    R.FLOAT_ALT = False
    ck = core.Check(PID, tier, 'exploration',
                    'part A: for every (archive, type) of the model zoo (root sequences, sets, multimap, fixed arrays, tuples, classes with every std container / '
                    'optional / smart pointer / string / nested combination, maps with typed keys, dynamic trees, CSV rows) a generated document is loaded into a '
                    'default-constructed target and into targets pre-populated from other seeds with smaller, equal and larger element counts (0..12), from memory '
                    'and stream; the described values must be identical. part B: std::map / unordered_map / map<string, vector<int>> pre-loaded with one key set '
                    'and then loaded with another through MapLoadMode Clean / OnlyExistKeys / UpdateKeys, judged by a dict model (only-existing-keys never adds, '
                    'update-keys never removes, values of common keys replaced completely). distinct non-trivial = distinct (archive, type, document, prior content, source)',
                    ['documents carry every member of the target class (a member absent from the document keeps its prior value by design, C03)'])
    q = tier == 'quick'
    rng = random.Random(core.mix(ck.seed, 'c18'))
    exe = D.build_doc('asan')
    per_type = 25 if q else 400
    # ---- part A
    lines, meta = [], {}
    k = 0
    for arch, types in D.TYPES.items():
        for typ in types:
            if typ in SKIP_TYPES:
                continue
            for rep in range(per_type):
                cid = 's%d' % k
                k += 1
                ms = rng.choice([0, 1, 2, 3, 5, 8])
                extra = {}
                if arch in ('xml', 'csv'):
                    extra['emptynull'] = 1
                lines.append(D.case_line('save', arch, typ, cid, seed=rng.randrange(1, 2 ** 62), maxsize=ms, sink='mem', **extra))
                meta[cid] = (arch, typ, ms, extra)
    by, crashes = core.run_cases(exe, lines, 'asan')
    for ln, key, err, rc in crashes:
        ck.violation('crash-on-save/%s' % key, {'driver': 'drv_doc', 'variant': 'asan', 'case': ln[:400000], 'stderr': err[-1500:]}, 'process died while saving: ' + key)
    lines2, meta2 = [], {}
    for cid, e in by.items():
        if e.get('out') != 'ok':
            ck.count('documents_not_saved')
            continue
        arch, typ, ms, extra = meta[cid]
        doc = e['bytes']
        variants = [('fresh', {})]
        for ps in ([0, 1, 4, 12] if q else [0, 1, 2, 4, 8, 12]):
            variants.append(('prior%d' % ps, dict(prior=rng.randrange(1, 2 ** 62), priorsize=ps)))
        src = dict(src='mem') if rng.random() < 0.6 else dict(src='sstream') if rng.random() < 0.5 else dict(src='slow', step=rng.choice([1, 7, 256]))
        for name, kw in variants:
            lid = '%s-%s' % (cid, name)
            lines2.append(D.case_line('load', arch, typ, lid, doc=doc, **kw, **src, **extra))
            meta2[lid] = (cid, name, lines2[-1])
    by2, crashes = core.run_cases(exe, lines2, 'asan')
    for ln, key, err, rc in crashes:
        ck.violation('crash/%s' % key, {'driver': 'drv_doc', 'variant': 'asan', 'case': ln[:400000], 'stderr': err[-1500:]}, 'process died: ' + key)
    fresh = {}
    for lid, e in by2.items():
        cid, name, line = meta2[lid]
        if name == 'fresh':
            fresh[cid] = e
    types_seen = set()
    for lid, e in by2.items():
        cid, name, line = meta2[lid]
        if name == 'fresh':
            continue
        arch, typ, ms, extra = meta[cid]
        f = fresh.get(cid)
        if f is None:
            continue
        ck.case((arch, typ, cid, name), nontrivial=True)
        types_seen.add((arch, typ))
        wit = {'driver': 'drv_doc', 'variant': 'asan', 'case': line[:400000], 'fresh_case': meta2[cid + '-fresh'][2][:400000]}
        if f.get('out') != e.get('out') or (f.get('out') != 'ok' and (f.get('exc'), f.get('code')) != (e.get('exc'), e.get('code'))):
            ck.violation('%s/%s/outcome-differs' % (arch, typ), dict(wit, fresh=str(f)[:1500], populated=str(e)[:1500]),
                         'fresh target: %s %s; populated target: %s %s' % (f.get('out'), f.get('code'), e.get('out'), e.get('code')))
            continue
        if f.get('out') != 'ok':
            ck.count('documents_rejected_by_both')
            continue
        if f['desc'] != e['desc']:
            import re
            diffs = D.leaf_diffs(f['desc'], e['desc'])
            if arch in ('xml', 'csv') and diffs and all(x == {'s': ''} and isinstance(y, dict) and y.get('s') for _, x, y in diffs):
                # by design an empty XML element / CSV cell is null = "not loaded": the populated string keeps its prior text
                ck.violation('%s/empty-string-is-null/populated-string-keeps-prior-text' % arch, dict(wit, fresh=json.dumps(f['desc'])[:3000], populated=json.dumps(e['desc'])[:3000]),
                             '%s %s: an empty string of the document leaves the prior text of a populated std::string in place (%s)' % (arch, typ, diffs[0][0]))
                continue
            d = D.first_diff(f['desc'], e['desc']) or '?'
            d = re.sub(r'/\d+', '/#', re.sub(r'/o/', '/', d))
            ck.violation('%s/%s/differs%s' % (arch, typ, d), dict(wit, fresh=json.dumps(f['desc'])[:3000], populated=json.dumps(e['desc'])[:3000]),
                         '%s %s loaded into a populated target (%s) differs from the fresh load at %s' % (arch, typ, name, d))
    ck.cov['types_compared'] = len(types_seen)
    # ---- part B
    exe2 = c03.build_req('asan')
    lines, meta = [], {}
    nb = 20000 if q else 600000
    for i in range(nb):
        arch = rng.choice(['json', 'xml', 'msgpack'])
        kind = rng.choice(['si', 'ss', 'sv'])
        mode = rng.choice(['clean', 'only', 'only', 'update', 'update'])
        prior, doc = rand_map(rng, kind, arch), rand_map(rng, kind, arch)
        if arch == 'xml' and (not prior or not doc):
            continue
        if arch != 'xml' and rng.random() < 0.3:
            for kk in list(doc):
                if rng.random() < 0.3:
                    doc[kk] = None                     # a null value: not loaded; an existing entry keeps its content, a new one is value-initialised
        if mode == 'clean':
            want = {kk: (vv if vv is not None else default_of(kind)) for kk, vv in doc.items()}
        elif mode == 'only':
            want = {kk: (doc[kk] if doc.get(kk) is not None else prior[kk]) for kk in prior}
        else:
            want = dict(prior)
            for kk, vv in doc.items():
                if vv is not None:
                    want[kk] = vv
                elif kk not in want:
                    want[kk] = default_of(kind)
        cid = 'm%d' % i
        src = dict(src='mem') if rng.random() < 0.6 else dict(src='slow', step=rng.choice([1, 7, 256]))
        line = 'op=mapmode id=%s arch=%s kind=%s mode=%s prior=%s doc=%s %s' % (cid, arch, kind, mode, render_root(arch, map_item(prior, kind, rng), rng).hex(),
                                                                                render_root(arch, map_item(doc, kind, rng), rng).hex(), ' '.join('%s=%s' % kv for kv in src.items()))
        lines.append(line)
        meta[cid] = (arch, kind, mode, prior, doc, want, line)
    by, crashes = core.run_cases(exe2, lines, 'asan')
    for ln, key, err, rc in crashes:
        ck.violation('crash/%s' % key, {'driver': 'drv_req', 'variant': 'asan', 'case': ln[:400000], 'stderr': err[-1500:]}, 'process died: ' + key)
    modes = {}
    for cid, e in by.items():
        arch, kind, mode, prior, doc, want, line = meta[cid]
        if 'error' in e:
            ck.harness_error(e['error'])
            continue
        ck.case((arch, kind, mode, line[-200:]), nontrivial=True)
        modes[mode] = modes.get(mode, 0) + 1
        wit = {'driver': 'drv_req', 'variant': 'asan', 'case': line, 'prior': str(prior), 'doc': str(doc), 'expected': str(want), 'event': str(e)[:2000]}
        if e.get('out') != 'ok':
            ck.violation('mapmode/%s/%s/%s/exception' % (arch, kind, mode), wit, 'valid maps raised: %s' % e.get('what'))
            continue
        got = sorted(json.dumps(x) for x in e['desc']['m'])
        if got != map_desc(want, kind):
            gk = {bytes.fromhex(x[0]['s']).decode() for x in e['desc']['m']}
            why = 'added-key' if (mode == 'only' and gk - set(prior)) else 'removed-key' if (mode == 'update' and set(prior) - gk) else 'stale-or-lost'
            ck.violation('mapmode/%s/%s/%s/%s' % (arch, kind, mode, why), wit, 'MapLoadMode %s: result %s, expected %s' % (mode, e['desc'], want))
    ck.cov['mapmode_cases'] = modes
    return ck.finish(min_nontrivial=1000)


def replay(w):
    wit = w['witness']
    exe = D.build_doc('asan') if wit.get('driver') == 'drv_doc' else c03.build_req('asan')
    ev, err, rc, bad = core.run_driver(exe, [wit['case']], 'asan')
    print(ev, err[-2000:])
    return 0
