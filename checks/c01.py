"""C01  Save then load reproduces the value, in every archive and output configuration."""
import random
import re

from vlib import core
from checks import doccommon as D

PID = 'C01'


def prebuild():
    D.build_doc('asan')


def has_nul_key(d):
    """True when the described value has a map key containing U+0000."""
    if isinstance(d, dict):
        if 'm' in d and isinstance(d['m'], list):
            for kv in d['m']:
                k = kv[0]
                if isinstance(k, dict) and 's' in k and any(k['s'][i:i + 2] == '00' for i in range(0, len(k['s']), 2)):
                    return True
        return any(has_nul_key(v) for v in d.values())
    if isinstance(d, list):
        return any(has_nul_key(v) for v in d)
    return False


ENC_PY = {'utf8': 'utf-8', 'utf16le': 'utf-16-le', 'utf16be': 'utf-16-be', 'utf32le': 'utf-32-le', 'utf32be': 'utf-32-be'}


def known_class(arch, typ, cfg, e):
    """Specific classes of genuine defects that are recorded in known_findings.json (see DESIGN.md section 6)."""
    raw = bytes.fromhex(e.get('bytes', '')) if isinstance(e.get('bytes'), str) else b''
    stream_src = cfg.get('src', 'mem') != 'mem'
    enc = cfg.get('enc', 'utf8')
    if arch == 'csv' and e.get('stage') == 'load' and e.get('desc0') == [] and raw.lstrip(b'\xef\xbb\xbf\xff\xfe\x00') == b'':
        return 'csv/zero-rows/empty-document-rejected'
    if arch == 'csv' and stream_src and enc == 'utf8' and not cfg.get('bom') and b'\x00' in raw[:256]:
        return 'csv/stream-utf8-nobom/text-with-nul-misdetected'
    if arch == 'msgpack' and cfg.get('src') == 'noseek' and e.get('stage') in ('load', 'load2') and (
            e.get('code') == 'Input/output error' or 'Unexpected end of input archive' in e.get('what', '')):
        return 'msgpack/noseek-stream/repositioning-required'
    if arch == 'json' and e.get('out') == 'differs' and isinstance(e.get('desc0'), (dict, list)):
        diffs = D.leaf_diffs(e['desc0'], e['desc1'])
        if diffs and all((D.ulp_distance(x, y, 'f64') or 99) <= 3 for _, x, y in diffs):
            return 'json/double-parsed-inexactly'
    if arch == 'json' and e.get('stage') in ('load', 'load2') and e.get('code') == 'Overflow' and any(h in str(e.get('desc0')) for h in ('7f7fffff', 'ff7fffff')):
        return 'json/float-max-rejected-after-inexact-parse'
    if arch == 'json' and has_nul_key(e.get('desc0')):
        return 'json/map-key-with-nul'
    if arch == 'json' and cfg.get('sink') == 'sstream' and not cfg.get('bom') and enc in ('utf16le', 'utf16be') and raw:
        try:
            text = raw.decode(ENC_PY[enc])
        except UnicodeDecodeError:
            text = None
        if text is not None and (len(text) < 2 or ord(text[1]) > 127 or ord(text[1]) == 0):
            return 'json/stream-nobom-utf16/second-character-not-ascii'
    return None


def classify(arch, typ, cfg, e):
    """Violation key: archive / type / stage / (exception code or first differing path) / config class."""
    kc = known_class(arch, typ, cfg, e)
    if kc:
        return kc
    stage = e.get('stage', '?')
    cfgc = []
    if cfg.get('sink') == 'sstream' and cfg.get('enc', 'utf8') != 'utf8':
        cfgc.append('stream-' + ('utf16' if '16' in cfg['enc'] else 'utf32'))
    elif cfg.get('sink') == 'sstream' and cfg.get('bom'):
        cfgc.append('stream-utf8-bom')
    if e.get('out') == 'differs':
        import json
        d = D.first_diff(e['desc0'], e['desc1']) or '?'
        d = re.sub(r'/o/', '/', d)
        return '%s/%s/%s/%s%s' % (arch, typ, stage, d, ('/' + cfgc[0]) if cfgc else '')
    return '%s/%s/%s/%s:%s%s' % (arch, typ, stage, e.get('exc', e.get('death', '?')), e.get('code', ''), ('/' + cfgc[0]) if cfgc else '')


def run(tier):
    ck = core.Check(PID, tier, 'exploration',
                    'seeded boundary-biased values of every model type (root scalars, root sequences, classes with base classes, nested '
                    'containers, maps with typed keys, optionals/smart pointers/tuples/pairs/chrono, dynamic trees, flat CSV rows) x sampled cells of '
                    'the configuration matrix {4 archives} x {memory, stream} x {5 encodings} x BOM x {compact, pretty x pad char x pad count} x CSV '
                    'separators x stream kinds; save -> load into a default-constructed object -> hand-written describe() equality, then '
                    'save(loaded) -> load -> equality (fixed point); under ASan+UBSan. A save that throws is counted as refused (allowed). '
                    'distinct non-trivial = distinct (archive,type,seed,config) round trips that were not refused',
                    ['format-carry filter: XML text restricted to XML Char without CR, XML map keys are Names, empty string == null in XML/CSV, '
                     'no NaN/Inf in JSON/XML/CSV values unless nonfinite cases, unique map keys in text formats'])
    exe = D.build_doc('asan')
    rng = random.Random(core.mix(ck.seed, 'c01'))
    q = tier == 'quick'
    per_type = {'json': 500, 'msgpack': 500, 'xml': 500, 'csv': 3000} if q else {'json': 20000, 'msgpack': 20000, 'xml': 20000, 'csv': 100000}
    lines, meta = [], {}
    k = 0
    for arch, types in D.TYPES.items():
        for typ in types:
            n = per_type[arch]
            if typ == 'zoo':
                n = n * 3
            for j in range(n):
                cfg, label = D.rand_config(rng, arch)
                extra = {}
                if rng.random() < 0.15:
                    extra['bigsizes'] = 1
                if arch in ('json',) and rng.random() < 0.1:
                    extra['nonfinite'] = 1
                cid = 'c%d' % k
                k += 1
                line = D.case_line('roundtrip', arch, typ, cid, seed=rng.randrange(1, 2 ** 62), **cfg, **extra)
                lines.append(line)
                meta[cid] = (arch, typ, cfg, label, line, extra)
    # directed cases for the recorded findings
    for j, (arch, typ, kw) in enumerate([
            ('json', 'm_str_str', dict(sink='mem', src='mem', keynul=1, maxsize=2)),
            ('json', 'm_str_i32', dict(sink='mem', src='mem', keynul=1, maxsize=2)),
            ('csv', 'csvrows', dict(sink='mem', src='mem', maxsize=0)),
            ('json', 'r_u8', dict(sink='sstream', src='sstream', enc='utf16be', bom=0)),
            ('json', 'r_u8', dict(sink='sstream', src='sstream', enc='utf16le', bom=0)),
            ('json', 'v_f64', dict(sink='mem', src='mem', maxsize=40)),
            ('json', 'v_f32', dict(sink='mem', src='mem', maxsize=60))]):
        for rep in range(6):
            cid = 'd%d_%d' % (j, rep)
            line = D.case_line('roundtrip', arch, typ, cid, seed=1000 + rep, **kw)
            lines.append(line)
            meta[cid] = (arch, typ, kw, 'directed', line, {})
    by, crashes = core.run_cases(exe, lines, 'asan')
    for ln, key, err, rc in crashes:
        c = ln.split()
        if ' keynul=1' in ln and 'assert' in key:
            key2 = 'json/map-key-with-nul'
        else:
            key2 = 'crash/%s/%s/%s' % (c[2][5:], c[3][5:], key)
        ck.violation(key2, {'driver': 'drv_doc', 'variant': 'asan', 'case': ln, 'stderr': err[-2000:]}, 'process died: ' + key)
    cells = {}
    refused = {}
    for cid, e in by.items():
        arch, typ, cfg, label, line, extra = meta[cid]
        if 'error' in e:
            ck.harness_error('%s: %s' % (line, e['error']))
            continue
        cells[label] = cells.get(label, 0) + 1
        if e.get('stage') == 'save' and e.get('out') == 'exc':
            refused[arch + '/' + typ] = refused.get(arch + '/' + typ, 0) + 1
            ck.case(None, nontrivial=False)
            ck.count('save_refused')
            ck.observe('save_refusal_codes', '%s:%s' % (e.get('exc'), e.get('code')))
            continue
        ck.case((arch, typ, line), nontrivial=True)
        if e.get('out') != 'ok':
            key = classify(arch, typ, cfg, e)
            what = '%s %s: stage=%s %s %s %s' % (arch, typ, e.get('stage'), e.get('out'), e.get('exc', ''), e.get('what', ''))
            ck.violation(key, {'driver': 'drv_doc', 'variant': 'asan', 'case': line, 'event': {kk: (vv if len(str(vv)) < 3000 else str(vv)[:3000]) for kk, vv in e.items()}}, what)
        elif len(ck.samples) < 8 and rng.random() < 0.01:
            ck.sample({'case': line, 'result': 'equal after round trip and at the fixed point', 'bytes': e.get('size')})
    ck.cov['config_cells_seen'] = len(cells)
    ck.cov['config_cells'] = cells
    ck.cov['types_per_archive'] = {a: len(t) for a, t in D.TYPES.items()}
    # a type whose saves are mostly refused is not being checked
    for at, n in refused.items():
        arch = at.split('/')[0]
        if n > per_type[arch] * 0.5:
            ck.harness_error('more than half of the saves were refused for %s' % at)
    return ck.finish(min_nontrivial=1000)


def replay(w):
    wit = w['witness']
    exe = D.build_doc(wit.get('variant', 'asan'))
    ev, err, rc, bad = core.run_driver(exe, [wit['case'] + ' verbose=1'], wit.get('variant', 'asan'))
    print(ev, err[-2000:])
    return 0
