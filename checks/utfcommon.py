"""Shared pieces for the UTF checks (C11, C12, C13): encodings, CPython-codec oracle, text generators."""
import random

from vlib import build, core

ENC_PY = {'utf8': 'utf-8', 'utf16le': 'utf-16-le', 'utf16be': 'utf-16-be', 'utf32le': 'utf-32-le', 'utf32be': 'utf-32-be',
          'utf16': 'utf-16-le', 'utf32': 'utf-32-le'}
ENC5 = ['utf8', 'utf16le', 'utf16be', 'utf32le', 'utf32be']
WIDTH = {'utf8': 1, 'utf16le': 2, 'utf16be': 2, 'utf32le': 4, 'utf32be': 4, 'utf16': 2, 'utf32': 4}
NATIVE = {'utf8', 'utf16le', 'utf32le', 'utf16', 'utf32'}


def build_utf(variant):
    return build.build('drv_utf', variant, ['drv_utf.cpp'], libs=(), need_lib=False)


def is_scalar(cp):
    return 0 <= cp <= 0x10FFFF and not (0xD800 <= cp <= 0xDFFF)


INTERESTING = [0, 1, 0x41, 0x7F, 0x80, 0xFF, 0x7FF, 0x800, 0xFFF, 0x1000, 0xD7FF, 0xE000, 0xFEFF, 0xFFFD, 0xFFFE, 0xFFFF,
               0x10000, 0x10FFFF, 0x1F600, 0x2028, 0x22, 0x5C, 0x2C, 0x0A, 0x0D, 0x3C, 0x26]


def rand_scalar(rng, avoid=()):
    while True:
        r = rng.random()
        if r < 0.25:
            cp = rng.choice(INTERESTING)
        elif r < 0.5:
            cp = rng.randrange(0x20, 0x7F)
        elif r < 0.65:
            cp = rng.randrange(0x80, 0x800)
        elif r < 0.85:
            cp = rng.randrange(0x800, 0x10000)
        else:
            cp = rng.randrange(0x10000, 0x110000)
        if is_scalar(cp) and cp not in avoid:
            return cp


def rand_text(rng, maxlen, avoid=()):
    r = rng.random()
    n = 0 if r < 0.03 else (rng.randrange(1, 8) if r < 0.5 else rng.randrange(1, maxlen + 1))
    return ''.join(chr(rand_scalar(rng, avoid)) for _ in range(n))


def units(b, enc):
    """bytes -> list of code-unit integers"""
    w = WIDTH[enc]
    order = 'big' if enc.endswith('be') else 'little'
    return [int.from_bytes(b[i:i + w], order) for i in range(0, len(b) - len(b) % w, w)]


def from_units(us, enc):
    w = WIDTH[enc]
    order = 'big' if enc.endswith('be') else 'little'
    return b''.join(u.to_bytes(w, order) for u in us)


def py_items(b, enc):
    """CPython-codec oracle: list of scalars, with None for every maximal ill-formed subpart (what errors='replace'
    turns into U+FFFD). Only meaningful for inputs whose well-formed part does not contain U+FFFD."""
    s = b.decode(ENC_PY[enc], errors='replace')
    return [None if ch == '\ufffd' else ord(ch) for ch in s]


def judge_skip(src, enc_from, out, enc_to, mark_cp, count, ec, it):
    """Oracle for the Skip policy. Returns None if held, else a reason string."""
    exp = py_items(src, enc_from)
    n_units = len(src) // WIDTH[enc_from]
    try:
        got = [ord(ch) for ch in out.decode(ENC_PY[enc_to], errors='strict')]
    except UnicodeDecodeError as e:
        return 'output is ill-formed in the target encoding (%s)' % e.reason
    if len(out) % WIDTH[enc_to]:
        return 'output has a partial code unit'
    if ec not in (0, 2):
        return 'Skip policy returned error code %d' % ec
    valid_units = sum(len(chr(cp).encode(ENC_PY[enc_from])) // WIDTH[enc_from] for cp in exp if cp is not None)
    bad_units = n_units - valid_units
    # when the library stops with UnexpectedEnd (ec=2) the unread tail must be one trailing ill-formed run
    if ec == 2:
        if not (0 <= it < n_units):
            return 'UnexpectedEnd with iterator %d outside the input' % it
        tail = src[it * WIDTH[enc_from]:]
        t_items = py_items(tail, enc_from)
        if any(x is not None for x in t_items) or len(tail) // WIDTH[enc_from] > 5:
            return 'UnexpectedEnd reported but the unread tail is not a truncated sequence'
        head = py_items(src[:it * WIDTH[enc_from]], enc_from)
        # head + tail must segment like the whole
        exp = head
        bad_units -= len(tail) // WIDTH[enc_from]
    elif it != n_units:
        return 'success reported but iterator %d is not at the end %d' % (it, n_units)
    gi = 0
    marks = 0
    k = 0
    while k < len(exp):
        if exp[k] is not None:
            if gi >= len(got) or got[gi] != exp[k]:
                return 'well-formed text lost or altered (expected U+%04X at output index %d)' % (exp[k], gi)
            gi += 1
            k += 1
        else:
            run = 0
            while k < len(exp) and exp[k] is None:
                run += 1
                k += 1
            g = 0
            while gi < len(got) and got[gi] == mark_cp:
                gi += 1
                g += 1
            if mark_cp is not None and g == 0:
                return 'ill-formed run not replaced by a mark'
            marks += g
    if gi != len(got):
        return 'extra output after the expected text'
    if mark_cp is not None:
        if marks > bad_units:
            return 'more marks (%d) than ill-formed code units (%d)' % (marks, bad_units)
        if count != marks:
            return 'InvalidSequencesCount %d != number of marks %d' % (count, marks)
    else:
        runs = sum(1 for j, x in enumerate(exp) if x is None and (j == 0 or exp[j - 1] is not None))
        if not (runs <= count <= bad_units):
            return 'InvalidSequencesCount %d outside [%d,%d]' % (count, runs, bad_units)
    return None


def judge_throw(src, enc_from, out, enc_to, ec, it, threw=False):
    exp = py_items(src, enc_from)
    n_units = len(src) // WIDTH[enc_from]
    well = all(x is not None for x in exp)
    if well:
        want = ''.join(chr(c) for c in exp).encode(ENC_PY[enc_to])
        if ec != 0 or threw:
            return 'valid input rejected (ec=%d)' % ec
        if out != want:
            return 'valid input transcoded to different code units'
        if it != n_units:
            return 'iterator %d not at end %d' % (it, n_units)
        return None
    if ec == 0 and not threw:
        return 'ill-formed input accepted under ThrowError'
    if threw:
        return None
    # position of the first ill-formed subpart, in source code units
    first = 0
    for x in exp:
        if x is None:
            break
        first += len(chr(x).encode(ENC_PY[enc_from])) // WIDTH[enc_from]
    if it != first:
        return 'reported position %d is not the start of the first ill-formed sequence (%d)' % (it, first)
    want = ''.join(chr(c) for c in exp[:exp.index(None)]).encode(ENC_PY[enc_to])
    if out != want:
        return 'output before the error differs from the well-formed prefix'
    return None


def run_stage(ck, exe, lines, variant, stage):
    """Runs driver lines; a sanitizer report / crash on any line is a violation (not a harness failure); returns the events."""
    by_id, crashes = core.run_cases(exe, lines, variant)
    for ln, key, err, rc in crashes:
        ck.violation('sanitizer/%s/%s' % (stage, key), {'driver': 'drv_utf', 'variant': variant, 'case': ln[:100000], 'stderr': err[-2000:]}, 'process died in stage %s: %s' % (stage, key))
    if len(by_id) + len(crashes) != len(lines):
        ck.harness_error('stage %s lost cases: %d of %d' % (stage, len(by_id) + len(crashes), len(lines)))
    out = []
    for e in by_id.values():
        if 'error' in e and 'id' in e and len(e) <= 3:
            ck.harness_error('driver error in stage %s: %s' % (stage, e['error']))
        else:
            out.append(e)
    return out
