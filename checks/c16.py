"""C16  Number/text conversion is lossless; numeric parsing is total and range-checked."""
import random
import re
import struct
from fractions import Fraction

from vlib import core
from checks import convcommon as C

PID = 'C16'

INT_TYPES = {'char': (-128, 127), 'i8': (-128, 127), 'u8': (0, 255), 'i16': (-2 ** 15, 2 ** 15 - 1), 'u16': (0, 2 ** 16 - 1),
             'i32': (-2 ** 31, 2 ** 31 - 1), 'u32': (0, 2 ** 32 - 1), 'i64': (-2 ** 63, 2 ** 63 - 1), 'u64': (0, 2 ** 64 - 1)}

FLOAT_RE = re.compile(r'-?(?:inf(?:inity)?|nan(?:\([0-9a-zA-Z_]*\))?|(?:[0-9]+\.?[0-9]*|\.[0-9]+)(?:[eE][+-]?[0-9]+)?)', re.I)


def prebuild():
    C.build_conv('ubsan')


def ref_outcomes(s, t):
    """Set of allowed outcome strings for Convert::To<t>(s)."""
    i = 0
    while i < len(s) and s[i] in ' \t':
        i += 1
    r = s[i:]
    if t == 'bool':
        if r[:1].isascii() and r[:1].isdigit():
            if re.match(r'[0-9](\.[0-9]|[eE][+-]?[0-9])', r):
                return {'exc:invalid_argument'}      # a float literal is not a boolean ("0.5", "1e5")
            if r[0] in '01' and not (len(r) > 1 and r[1].isascii() and r[1].isdigit()):
                return {'ok:true' if r[0] == '1' else 'ok:false'}
            if r[0] == '0':   # 0 followed by digits: value may still be 0/1 ("01") - unpinned
                return {'exc:out_of_range', 'ok:true', 'ok:false'}
            return {'exc:out_of_range'}
        if r[:4].lower() == 'true':
            return {'ok:true'}
        if r[:5].lower() == 'false':
            return {'ok:false'}
        return {'exc:invalid_argument'}
    if t in INT_TYPES:
        lo, hi = INT_TYPES[t]
        m = re.match(r'-?[0-9]+', r)
        if r[:1] == '+':
            m2 = re.match(r'\+[0-9]+', r)
            if m2:   # leading '+' is unpinned
                v = int(m2.group(0))
                return {'exc:invalid_argument'} | ({'ok:%d' % v} if lo <= v <= hi else {'exc:out_of_range'})
            return {'exc:invalid_argument'}
        if not m:
            return {'exc:invalid_argument'}
        lit = m.group(0)
        rest = r[len(lit):]
        frac = (len(rest) >= 2 and rest[0] == '.' and rest[1].isascii() and rest[1].isdigit()) or bool(re.match(r'[eE][+-]?[0-9]', rest))     # a float literal (fraction or exponent)
        v = int(lit)
        if lit[0] == '-' and lo == 0:
            out = {'exc:invalid_argument', 'exc:out_of_range'}
            if v == 0 and not frac:
                out.add('ok:0')
            return out
        if frac:
            # a fractional literal for an integer target; (an out-of-range integer part may also be reported as such)
            return {'exc:invalid_argument'} | (set() if lo <= v <= hi else {'exc:out_of_range'})
        return {'ok:%d' % v} if lo <= v <= hi else {'exc:out_of_range'}
    # floats
    if r[:1] == '+':
        m = FLOAT_RE.match(r[1:])
        if not m:
            return {'exc:invalid_argument'}
        return {'exc:invalid_argument'} | ref_outcomes(r[1:], t)
    m = FLOAT_RE.match(r)
    if not m:
        return {'exc:invalid_argument'}
    lit = m.group(0).lower()
    neg = lit.startswith('-')
    body = lit[1:] if neg else lit
    mant, emin, emax, fmt, tag = (24, -149, 127, '>f', 'f32') if t == 'f32' else (53, -1074, 1023, '>d', 'f64')

    def bits(x):
        return '%s:%s' % (tag, struct.pack(fmt, x).hex())
    if body.startswith('inf'):
        return {bits(float('-inf') if neg else float('inf'))} and {'ok:' + bits(float('-inf') if neg else float('inf'))}
    if body.startswith('nan'):
        return {'ok:nan'}
    mm = re.match(r'([0-9]*)\.?([0-9]*)(?:e([+-]?[0-9]+))?$', body)
    ip, fp, ex = mm.group(1), mm.group(2), mm.group(3)
    exn = int(ex) if ex else 0
    if abs(exn) > 5000:
        digits = (ip + fp).strip('0')
        if not digits:
            q = Fraction(0)
        else:
            return {'exc:out_of_range'} | ({'ok:' + bits(-0.0 if neg else 0.0)} if exn < 0 else set())
    else:
        q = Fraction(int(ip + fp or '0'), 10 ** len(fp)) * Fraction(10) ** exn
    if neg:
        q = -q
    rv = C.round_to_binary(q, mant, emin, emax)
    if rv == 'inf':
        return {'exc:out_of_range'}
    x = float(rv)   # exact: rv is representable
    if rv == 0 and neg:
        x = -0.0
    out = {'ok:' + bits(x)}
    min_normal = Fraction(2) ** (emin + mant - 1)
    if q != 0 and abs(q) < min_normal:
        out.add('exc:out_of_range')   # underflow may be reported
    return out


def gen_string(rng, t):
    s = gen_string0(rng, t)
    if s and rng.random() < 0.03:
        # a non-ASCII character whose low byte is an ASCII digit / sign / letter of the literal must not be taken for it (same outcome in every string width)
        p = rng.randrange(len(s))
        if ord(s[p]) < 0x80:
            s = s[:p] + chr(ord(s[p]) + 0x100 * rng.choice([1, 2, 4, 0x20, 0x30, 0xFF])) + s[p + 1:]
    return s


def gen_string0(rng, t):
    r = rng.random()
    blanks = rng.choice(['', '', '', ' ', '  ', '\t', ' \t '])
    trail = rng.choice(['', '', '', ' ', 'x', ' 1', 'e', '.', '..5', 'e+', 'é', '\U0001F600', '\x00', '\x001', '-', ',5', 'f', 'L', '%'])
    if t == 'bool':
        core_s = rng.choice(['0', '1', 'true', 'false', 'TRUE', 'False', 'tRuE', 'fALSE', '2', '9', '10', '11', 'tru', 'fals', 'yes', '', 't', '-1', '1.0', 'truefalse', '0x', '1e5'])
        return blanks + core_s + trail
    if t in INT_TYPES:
        lo, hi = INT_TYPES[t]
        k = rng.random()
        if k < 0.3:
            v = rng.choice([lo, hi, lo - 1, hi + 1, lo + 1, hi - 1, 0, -1, 1, hi * 10, lo * 10 - 1, 2 ** 64, 2 ** 63, -2 ** 63 - 1, 10 ** 30, -10 ** 30])
        elif k < 0.6:
            v = rng.randrange(lo - 3, hi + 4)
        else:
            v = rng.randrange(-2 ** 70, 2 ** 70) >> rng.randrange(70)
        lit = str(v)
        if rng.random() < 0.15:
            lit = ('-' if v < 0 else '') + '0' * rng.randrange(1, 30) + str(abs(v))
        elif rng.random() < 0.06:
            # literals longer than any fixed scratch buffer (60..600 characters): same value, or out of range
            lit = ('-' if v < 0 else '') + '0' * rng.choice([60, 63, 64, 65, 100, 127, 128, 129, 255, 256, 300, 600]) + str(abs(v))
        elif rng.random() < 0.03:
            lit = ('-' if v < 0 else '') + str(abs(v) + 1) + ''.join(rng.choice('0123456789') for _ in range(rng.choice([60, 64, 70, 130, 300])))
        if rng.random() < 0.08:
            lit = '+' + lit.lstrip('-')
        if rng.random() < 0.1:
            lit = rng.choice(['', '-', '--1', '- 1', 'abc', '.5', '-.5', 'e5', '١٢', '１'])
        if rng.random() < 0.12:
            lit += rng.choice(['.5', '.0', '.', '.e', '.999999999999999999999', 'e2', 'E-2'])
        return blanks + lit + trail
    # floats
    k = rng.random()
    if k < 0.15:
        lit = rng.choice(['inf', '-inf', 'INF', 'Infinity', '-infinity', 'nan', 'NaN', '-nan', 'nan(123)', 'nan(', 'in', 'na', 'infinit'])
    elif k < 0.25:
        lit = rng.choice(['', '-', '.', '-.', 'e5', '.e5', 'abc', '--1', '0x10', '0x1p3', '1e', '1e+', '1.e', '1.e5', '.5', '5.', '-.5e-3', '1e5000', '1e-5000', '-1e5000', '0e5000', '0.0e99999'])
    else:
        digits = ''.join(rng.choice('0123456789') for _ in range(rng.choice([1, 2, 3, 7, 8, 9, 15, 16, 17, 18, 25, 40] if rng.random() < 0.92 else [60, 64, 65, 70, 100, 128, 129, 260, 400, 800])))
        if rng.random() < 0.05:
            digits = '0' * rng.choice([61, 64, 67, 130, 300]) + digits
        p = rng.randrange(0, len(digits) + 1)
        lit = digits[:p] + ('.' + digits[p:] if rng.random() < 0.7 else digits[p:])
        if lit.startswith('.') and rng.random() < 0.5:
            lit = '0' + lit
        if rng.random() < 0.6:
            e = rng.choice([0, 1, -1, 5, -5, 20, -20, 37, 38, 39, -37, -38, -39, -44, -45, -46, -47, 307, 308, 309, -307, -308, -323, -324, -325, 400, -400])
            if t == 'f32' and rng.random() < 0.5:
                e = rng.randrange(-60, 50)
            lit += rng.choice('eE') + rng.choice(['', '+', '-'] if e == 0 else (['', '+'] if e > 0 else ['-'])) + str(abs(e))
        if rng.random() < 0.4:
            lit = '-' + lit
        if rng.random() < 0.05:
            lit = '+' + lit.lstrip('-')
    return blanks + lit + trail


def run(tier):
    ck = core.Check(PID, tier, 'exploration',
                    'integers: every value of the 8/16-bit types, boundary (+-2, 2^k+-1, 10^k) and random 32/64-bit values: text == glibc decimal, '
                    'parse back identical, in four string widths; floats: bit patterns (all exponents x stepped mantissas in quick, all 2^32 in '
                    'thorough) and doubles (all exponents, powers of 10 neighbourhoods, random, subnormals, short decimals): glibc strtof/strtod '
                    'reads the text back bit-identically and no shorter text round-trips; parsing: strings from a numeric-literal grammar judged '
                    'by an exact-rational reference in the checker, outcomes must agree across char/char16_t/char32_t/wchar_t. '
                    'distinct non-trivial = distinct (string,target) parse cases + sampled sweep values',
                    ['glibc strtof/strtod/snprintf are correctly rounded', 'CPython Fraction arithmetic'])
    exe = C.build_conv('ubsan')
    seed = ck.seed
    rng = random.Random(core.mix(seed, 'c16'))
    q = tier == 'quick'
    lines = []
    for t in INT_TYPES:
        lines.append('op=c16ints id=i-%s type=%s seed=%d n=%d' % (t, t, core.mix(seed, t) % 2 ** 31, 150000 if q else 5000000))
    # floats: quick = stepped over the whole pattern space with a random phase; thorough = everything
    if q:
        step = 4099
        nblk = 64
        for b in range(nblk):
            lo = b * (2 ** 32 // nblk)
            lines.append('op=c16floats id=f-%d lo=%d hi=%d step=%d' % (b, lo + rng.randrange(step), lo + 2 ** 32 // nblk, step))
        lines.append('op=c16floats id=f-sub lo=0 hi=65536 step=1')
        lines.append('op=c16floats id=f-top lo=%d hi=%d step=1' % (0x7F7F0000, 0x7F800010))
        lines.append('op=c16floats id=f-ntop lo=%d hi=%d step=1' % (0xFF7F0000, 0xFF800010))
    else:
        nblk = 1024
        for b in range(nblk):
            lo = b * (2 ** 32 // nblk)
            lines.append('op=c16floats id=f-%d lo=%d hi=%d step=1' % (b, lo, lo + 2 ** 32 // nblk))
    nd = 64
    for b in range(nd):
        lines.append('op=c16doubles id=d-%d seed=%d n=%d special=%d' % (b, core.mix(seed, 'dbl', b) % 2 ** 31, 12000 if q else 800000, 1 if b == 0 else 0))
    by = C.run_sweeps(ck, exe, lines, 'ubsan')
    ck.cov['int_values'] = sum(e.get('values', 0) for i, e in by.items() if i.startswith('i-'))
    ck.cov['float_patterns'] = sum(e.get('values', 0) for i, e in by.items() if i.startswith('f-'))
    ck.cov['double_patterns'] = sum(e.get('values', 0) for i, e in by.items() if i.startswith('d-'))
    ck.cov['float32_exhaustive'] = (not q)
    for i in range(0, 60000):
        ck.distinct.add(('sweepvalue', i))   # far fewer than the distinct values actually swept (see *_values / *_patterns)
    ck.sample({'sweep': 'float bits 0x4c3ff1b4 -> ToString -> strtof -> same bits; no shorter text round-trips'})

    # parsing judged in the checker
    n = 40000 if q else 1500000
    types = ['bool'] + list(INT_TYPES) + ['f32', 'f64']
    lines, meta = [], {}
    for k in range(n):
        t = rng.choice(types)
        s = gen_string(rng, t)
        try:
            sb = s.encode('utf-8')
        except UnicodeEncodeError:
            continue
        i = 'p%d' % k
        lines.append('op=c16parse id=%s type=%s s=%s' % (i, t, sb.hex()))
        meta[i] = (s, t, lines[-1])
    by, crashes = core.run_cases(exe, lines, 'ubsan')
    for ln, key, err, rc in crashes:
        ck.violation('parse/sanitizer/' + key, {'driver': 'drv_conv', 'variant': 'ubsan', 'case': ln, 'stderr': err[-1500:]}, 'process died: ' + key)
    classes = {}
    for i, e in by.items():
        s, t, line = meta[i]
        allowed = ref_outcomes(s, t)
        outs = e['r']
        ck.case((s, t), nontrivial=True)
        # normalise NaN results
        norm = []
        for o in outs:
            if o.startswith('ok:f32:') and (int(o[7:], 16) & 0x7FFFFFFF) > 0x7F800000:
                o = 'ok:nan'
            if o.startswith('ok:f64:') and (int(o[7:], 16) & 0x7FFFFFFFFFFFFFFF) > 0x7FF0000000000000:
                o = 'ok:nan'
            norm.append(o)
        classes[norm[0].split(':')[1] if norm[0].startswith('exc') else 'ok'] = classes.get(norm[0].split(':')[1] if norm[0].startswith('exc') else 'ok', 0) + 1
        if len(set(norm)) != 1:
            ck.violation('parse/width-disagreement/%s' % t, {'driver': 'drv_conv', 'variant': 'ubsan', 'case': line, 'string': repr(s), 'outcomes': outs},
                         'Convert::To<%s>(%r) differs between char/char16_t/char32_t/wchar_t: %s' % (t, s, outs))
        elif norm[0] not in allowed:
            kind = 'value' if norm[0].startswith('ok') and any(a.startswith('ok') for a in allowed) else ('accepted' if norm[0].startswith('ok') else ('rejected' if any(a.startswith('ok') for a in allowed) else 'wrong-exception'))
            ck.violation('parse/%s/%s' % (kind, 'int' if t in INT_TYPES else t), {'driver': 'drv_conv', 'variant': 'ubsan', 'case': line, 'string': repr(s), 'outcomes': outs, 'allowed': sorted(allowed)},
                         'Convert::To<%s>(%r) -> %s, reference allows %s' % (t, s, norm[0], sorted(allowed)))
        elif len(ck.samples) < 8:
            ck.sample({'string': repr(s), 'target': t, 'outcome': norm[0]})
    ck.cov['parse_outcome_classes'] = classes
    return ck.finish(min_nontrivial=1000)


def replay(w):
    wit = w['witness']
    exe = C.build_conv(wit.get('variant', 'ubsan'))
    ev, err, rc, bad = core.run_driver(exe, [wit['case']], wit.get('variant', 'ubsan'))
    print(ev, err[-2000:])
    return 0
