"""C06  MsgPack output is spec-conformant, compact, and readable by any decoder."""
import json
import random

from vlib import core
from checks import doccommon as D
from oracles import msgpack_ref as M
from oracles import shapes as S

PID = 'C06'
INT_ROOTS = {'r_i8': (8, True), 'r_u8': (8, False), 'r_i16': (16, True), 'r_u16': (16, False), 'r_i32': (32, True), 'r_u32': (32, False), 'r_i64': (64, True), 'r_u64': (64, False), 'r_char': (8, True)}


def prebuild():
    D.build_doc('asan')


def check_minimal(item, path, out, int_signed_hint=None):
    """Appends (class, path, detail) for every item that is not in the most compact format."""
    t = item['t']
    if t == 'int':
        want = M.minimal_int_fmt(item['v'])
        if M.INT_SIZE[item['fmt']] > M.INT_SIZE[want]:
            cls = 'int-not-compact'
            # the recorded finding: non-negative value of a signed C++ type written in the signed family one size wider than the unsigned form
            if item['v'] >= 0 and item['fmt'].startswith('int') and M.INT_SIZE[item['fmt']] > M.INT_SIZE[want]:
                cls = 'int-not-compact/nonneg-in-signed-family'
            out.append((cls, path, 'value %d written as %s, %s is enough' % (item['v'], item['fmt'], want)))
    elif t in ('str', 'bin'):
        want = M.minimal_len_fmt(t, len(item['v']))
        if item['fmt'] != want:
            out.append((t + '-not-compact', path, 'length %d written as %s, %s is enough' % (len(item['v']), item['fmt'], want)))
    elif t == 'array':
        want = M.minimal_len_fmt('array', len(item['v']))
        if item['fmt'] != want:
            out.append(('array-not-compact', path, 'size %d written as %s' % (len(item['v']), item['fmt'])))
        for x in item['v']:
            check_minimal(x, path + '/[]', out)
    elif t == 'map':
        want = M.minimal_len_fmt('map', len(item['v']))
        if item['fmt'] != want:
            out.append(('map-not-compact', path, 'size %d written as %s' % (len(item['v']), item['fmt'])))
        for k, v in item['v']:
            check_minimal(k, path + '/<key>', out)
            check_minimal(v, path + '/' + (k['v'].decode('utf-8', 'replace') if k['t'] == 'str' else '?'), out)
    elif t == 'ts':
        sec, ns = item['v']
        want = M.minimal_ts_len(sec, ns)
        if item['len'] != want or item['fmt'] not in ('fixext4', 'fixext8', 'ext8'):
            out.append(('timestamp-not-compact', path, '(%d s, %d ns) written as %s/%d bytes, timestamp %d is enough' % (sec, ns, item['fmt'], item['len'], want * 8)))


def judge(ck, line, typ, sh, desc, raw, variant='asan'):
    """Decodes one saved document with the reference decoder and compares it with the described value."""
    wit = {'driver': 'drv_doc', 'variant': variant, 'case': line, 'bytes': raw.hex()[:4000], 'desc': json.dumps(desc)[:2000]}
    exp = S.mp_tree(desc, sh)
    item, err = None, None
    try:
        item = M.decode(raw, strict_utf8=True)
    except M.MsgPackError as e:
        err = e
    d = S.mp_equal(item, exp) if item is not None else None
    if (err is not None or d) and b'\xc7\x0c\xff' in raw:
        # does the document become right when timestamp 96 is read as (seconds, nanoseconds) instead of the layout of the specification?
        M.TS96_SECONDS_FIRST = True
        try:
            alt = M.decode(raw, strict_utf8=True)
            if S.mp_equal(alt, exp) is None:
                ck.violation('timestamp96/seconds-before-nanoseconds', wit, '%s: timestamp 96 payload is written as seconds(64) + nanoseconds(32), the specification says nanoseconds(32) + seconds(64)' % typ)
                return False
        except M.MsgPackError:
            pass
        finally:
            M.TS96_SECONDS_FIRST = False
    if err is not None:
        ck.violation('ill-formed/%s/%s' % (typ, str(err).split(' ')[0]), wit, 'reference decoder rejects the output of %s: %s' % (typ, err))
        return False
    if d:
        import re
        ck.violation('data-differs/%s/%s' % (typ, re.sub(r'[0-9]+', 'N', d.split(':')[0])[:80]), wit, 'reference decoder recovers different data for %s: %s' % (typ, d))
        return False
    issues = []
    check_minimal(item, '', issues)
    for cls, path, detail in issues:
        ck.violation('%s' % cls, dict(wit, path=path), '%s at %s: %s' % (typ, path, detail))
    return not issues


def run(tier):
    ck = core.Check(PID, tier, 'exploration',
                    'every model type saved to MsgPack (memory and stream) from seeded boundary-biased values; all integers of the 8/16-bit '
                    'types exhaustively and format thresholds 2^5,2^7,2^8,2^15,2^16,2^31,2^32,2^63 +-2 for every integer C++ type; str/bin/array/map '
                    'lengths at 15/16/31/32/255/256/65535/65536; bytes decoded by an independent strict decoder written from the spec and compared '
                    'item by item with the expected data model derived from describe() (types, values, order, header counts, bin for byte '
                    'containers, timestamp layout, minimal formats); memory and stream bytes must be identical. '
                    'distinct non-trivial = distinct (type, value) documents',
                    ['oracles/msgpack_ref.py follows the MessagePack specification'])
    exe = D.build_doc('asan')
    rng = random.Random(core.mix(ck.seed, 'c06'))
    q = tier == 'quick'
    types = D.TYPES['msgpack']
    # shapes
    lines = [D.case_line('shape', 'msgpack', t, 'sh_' + t) for t in types]
    by, crashes = core.run_cases(exe, lines, 'asan')
    shapes = {i[3:]: e['shape'] for i, e in by.items()}
    if len(shapes) != len(types):
        ck.harness_error('could not obtain shapes')
        return ck.finish()
    # 1. seeded values, both sinks
    n = 150 if q else 6000
    lines, meta = [], {}
    k = 0
    for t in types:
        for j in range(n * (3 if t == 'zoo' else 1)):
            seed = rng.randrange(1, 2 ** 62)
            extra = ' bigsizes=1' if rng.random() < 0.3 else ''
            for sink in ('mem', 'sstream'):
                cid = 'c%d' % k
                k += 1
                line = D.case_line('save', 'msgpack', t, cid, seed=seed, sink=sink) + extra
                lines.append(line)
                meta[cid] = (t, seed, sink, line)
    # length thresholds
    for ln in (0, 1, 15, 16, 31, 32, 255, 256, 65535, 65536):
        for t, key in (('r_str', 'strlen'), ('r_wstr', 'strlen'), ('v_i32', 'seqlen'), ('v_u8', 'seqlen'), ('v_char', 'seqlen'), ('m_i64_str', 'seqlen')):
            for sink in ('mem', 'sstream'):
                cid = 'c%d' % k
                k += 1
                line = D.case_line('save', 'msgpack', t, cid, seed=1, sink=sink) + ' %s=%d' % (key, ln)
                lines.append(line)
                meta[cid] = (t, (key, ln), sink, line)
    # chrono values around the layout thresholds of the timestamp extension (2^32, 2^34 seconds, negative, sub-second)
    for cnt in (0, 1, -1, 999, 1000, -1000, -1001, (1 << 32) * 1000 - 1, (1 << 32) * 1000, (1 << 32) * 1000 + 1, (1 << 34) * 1000 - 1, (1 << 34) * 1000, (1 << 34) * 1000 + 1, -(1 << 34) * 1000, 9223372036854775807, -9223372036854775807 - 1):
        for t in ('r_tpms', 'r_durs'):
            c2 = cnt if t == 'r_tpms' else cnt // 1000
            for sink in ('mem', 'sstream'):
                cid = 'c%d' % k
                k += 1
                line = D.case_line('save', 'msgpack', t, cid, seed=1, sink=sink, count=c2)
                lines.append(line)
                meta[cid] = (t, ('count', c2), sink, line)
    by, crashes = core.run_cases(exe, lines, 'asan')
    for ln, key, err, rc in crashes:
        ck.violation('crash/%s' % key, {'driver': 'drv_doc', 'variant': 'asan', 'case': ln, 'stderr': err[-1500:]}, 'process died while saving: ' + key)
    pairs = {}
    fmts_seen = {}
    refused = 0
    for cid, e in by.items():
        t, seed, sink, line = meta[cid]
        if 'error' in e:
            ck.harness_error(e['error'])
            continue
        if e['out'] != 'ok':
            refused += 1
            ck.case(None, nontrivial=False)
            ck.observe('save_refusal_codes', '%s:%s' % (e.get('exc'), e.get('code')))
            continue
        raw = bytes.fromhex(e['bytes'])
        pairs.setdefault((t, seed), {})[sink] = raw
        if sink == 'mem':
            ck.case((t, e['bytes'][:200], len(raw)), nontrivial=True)
            ok = judge(ck, line, t, shapes[t], e['desc'], raw)
            if ok and len(ck.samples) < 6 and rng.random() < 0.02:
                ck.sample({'type': t, 'bytes': e['bytes'][:120], 'decoded_ok': True})
            try:
                def walk(it):
                    fmts_seen[it['fmt']] = fmts_seen.get(it['fmt'], 0) + 1
                    if it['t'] == 'array':
                        for x in it['v']:
                            walk(x)
                    elif it['t'] == 'map':
                        for kk, vv in it['v']:
                            walk(kk)
                            walk(vv)
                walk(M.decode(raw, strict_utf8=False))
            except M.MsgPackError:
                pass
    for (t, seed), d in pairs.items():
        if 'mem' in d and 'sstream' in d and d['mem'] != d['sstream']:
            ck.violation('mem-vs-stream/%s' % t, {'driver': 'drv_doc', 'variant': 'asan', 'case': D.case_line('save', 'msgpack', t, 'x', seed=seed, sink='sstream'), 'mem': d['mem'].hex()[:2000], 'stream': d['sstream'].hex()[:2000]},
                         'memory and stream output differ for %s' % t)
    ck.cov['save_refused'] = refused
    ck.cov['formats_seen'] = fmts_seen
    # 2. integer sweeps
    lines, meta = [], {}
    for t, (bits, signed) in INT_ROOTS.items():
        lo, hi = (-(1 << (bits - 1)), (1 << (bits - 1)) - 1) if signed else (0, (1 << bits) - 1)
        if bits <= 16:
            step = 8192
            for a in range(lo, hi + 1, step):
                for sink in ('mem', 'sstream'):
                    cid = 'w_%s_%d_%s' % (t, a, sink)
                    lines.append(D.case_line('sweep', 'msgpack', t, cid, lo=a, hi=min(hi, a + step - 1), sink=sink))
                    meta[cid] = (t, list(range(a, min(hi, a + step - 1) + 1)))
        else:
            vals = set()
            for p in (5, 7, 8, 15, 16, 31, 32, 63, 64):
                for d in (-2, -1, 0, 1, 2):
                    for sgn in (1, -1):
                        v = sgn * (1 << p) + d
                        if lo <= v <= hi:
                            vals.add(v)
            vals.update([lo, lo + 1, hi, hi - 1, 0, 1, -1 if signed else 2])
            for _ in range(2000 if q else 200000):
                vals.add(S.rand_int(rng, lo, hi))
            vals = sorted(vals)
            for a in range(0, len(vals), 4000):
                chunk = vals[a:a + 4000]
                for sink in ('mem', 'sstream'):
                    cid = 'w_%s_%d_%s' % (t, a, sink)
                    lines.append(D.case_line('sweep', 'msgpack', t, cid, vals=','.join(map(str, chunk)), sink=sink))
                    meta[cid] = (t, chunk)
    by, crashes = core.run_cases(exe, lines, 'asan')
    for ln, key, err, rc in crashes:
        ck.violation('crash/%s' % key, {'driver': 'drv_doc', 'variant': 'asan', 'case': ln[:300], 'stderr': err[-1500:]}, 'process died in integer sweep: ' + key)
    swept = 0
    for cid, e in by.items():
        if 'error' in e:
            ck.harness_error(e['error'])
            continue
        t, vals = meta[cid]
        raw = bytes.fromhex(e['bytes'])
        pos = 0
        for v in vals:
            try:
                item, used = M.decode_prefix(raw[pos:])
            except M.MsgPackError as ex:
                ck.violation('ill-formed/%s/int-sweep' % t, {'driver': 'drv_doc', 'variant': 'asan', 'case': D.case_line('sweep', 'msgpack', t, 'x', vals=str(v))}, 'value %d: %s' % (v, ex))
                break
            pos += used
            swept += 1
            if item['t'] != 'int' or item['v'] != v:
                ck.violation('data-differs/%s/int-sweep' % t, {'driver': 'drv_doc', 'variant': 'asan', 'case': D.case_line('sweep', 'msgpack', t, 'x', vals=str(v))}, 'value %d decoded as %r' % (v, item['v']))
            else:
                issues = []
                check_minimal(item, '', issues)
                for cls, path, detail in issues:
                    ck.violation(cls, {'driver': 'drv_doc', 'variant': 'asan', 'case': D.case_line('sweep', 'msgpack', t, 'x', vals=str(v)), 'type': t}, '%s: %s' % (t, detail))
        if pos != len(raw):
            ck.violation('ill-formed/%s/int-sweep-trailing' % t, {'driver': 'drv_doc', 'variant': 'asan', 'case': cid}, 'trailing bytes in sweep output')
    ck.add_counts(swept)
    ck.cov['integers_swept'] = swept
    ck.cov['exhaustive_types'] = ['int8', 'uint8', 'int16', 'uint16', 'char']
    return ck.finish(min_nontrivial=500)


def replay(w):
    wit = w['witness']
    exe = D.build_doc(wit.get('variant', 'asan'))
    ev, err, rc, bad = core.run_driver(exe, [wit['case']], wit.get('variant', 'asan'))
    print(ev, err[-2000:])
    return 0
