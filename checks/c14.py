"""C14  ISO-8601 text of times and durations is calendar-correct and parses back exactly."""
import datetime
import random

from vlib import core, build
from checks import convcommon as C

PID = 'C14'


def build_ts(variant='asan'):
    return build.build('drv_ts', variant, ['drv_ts.cpp'])


def prebuild():
    C.build_conv('ubsan')
    build_ts()


def run(tier):
    ck = core.Check(PID, tier, 'exploration',
                    'every day of a year range (quick: -10000..+20000 exhaustively for all 11 time_point types at 00:00:00 and at the last '
                    'instant of the day; thorough adds every second of selected days through denser value sweeps) + min/max/10^k/2^k neighbourhoods '
                    'and random 64-bit counts for 11 (rep,period) types of time_point and duration + time_t: text must equal an independent '
                    'proleptic-Gregorian rendering (400-year table built by a day walker, cross-checked with CPython datetime every run), '
                    'parse(print(x)) == x, duration text evaluated by an independent evaluator, MsgPack binary timestamp form round trip '
                    '(conversion to seconds + nanoseconds, and the wire form: string and stream writer output decoded by an independent decoder of '
                    'timestamp 32 / 64 / 96 and read back by the string and the stream reader). '
                    'distinct non-trivial = distinct (type,count) values',
                    ['CPython datetime is a correct proleptic Gregorian calendar for years 1..9999'])
    exe = C.build_conv('ubsan')
    seed = ck.seed
    rng = random.Random(core.mix(seed, 'c14'))
    q = tier == 'quick'
    # 1. reference calendar vs CPython datetime
    lines = []
    epoch = datetime.date(1970, 1, 1).toordinal()
    lo, hi = 1 - epoch, datetime.date(9999, 12, 31).toordinal() - epoch + 1
    nblk = 64
    span = (hi - lo + nblk - 1) // nblk
    for b in range(nblk):
        lines.append('op=calref id=cal%d lo=%d hi=%d step=%d' % (b, lo + b * span, min(hi, lo + (b + 1) * span), 1 if not q else 3))
    by, crashes = core.run_cases(exe, lines, 'ubsan')
    okdays = 0
    for e in by.values():
        for d, y, m, dd in e['r']:
            dt = datetime.date.fromordinal(d + epoch)
            if (dt.year, dt.month, dt.day) != (y, m, dd):
                ck.harness_error('in-driver calendar disagrees with CPython datetime at day %d' % d)
            okdays += 1
    if crashes:
        ck.harness_error('calref crashed: %s' % crashes[0][1])
    ck.cov['reference_days_crosschecked_with_cpython'] = okdays
    # 2. day sweep
    lines = []
    ylo, yhi = (-10000, 20000)
    blk = 50
    for y in range(ylo, yhi, blk):
        lines.append('op=c14days id=y%d ylo=%d yhi=%d' % (y, y, y + blk))
    # the ranges of int32 seconds / ns etc. are inside; far years for coarse types
    for y in (-292277022000, -5879610, -1000000, 1000000, 5879600, 292277020000):
        lines.append('op=c14days id=y%d ylo=%d yhi=%d' % (y, y, y + (20 if q else 200)))
    n = 3000 if q else 150000
    types = ['ns', 'us', 'ms', 's', 'min', 'h', 'days', 's32', 'min32', 'h32', 'days32', 'time_t']
    for t in types:
        for b in range(4 if q else 16):
            lines.append('op=c14vals id=v-%s-%d type=%s seed=%d n=%d' % (t, b, t, core.mix(seed, t, b) % 2 ** 31, n))
    by = C.run_sweeps(ck, exe, lines, 'ubsan')
    ck.cov['days_swept'] = sum(e.get('days', 0) for e in by.values())
    ck.cov['values_checked'] = sum(e.get('values', 0) for e in by.values())
    ck.cov['year_range_exhaustive'] = [ylo, yhi]
    # 3. wire form: binary timestamps through the MessagePack timestamp extension (string and stream writer / reader) against an
    #    independent decoder of the timestamp 32 / 64 / 96 formats
    exe_ts = build_ts()
    lines = ['op=c14wire id=w%d seed=%d n=%d' % (b, core.mix(seed, 'wire', b) % 2 ** 31, 20000 if q else 400000) for b in range(8 if q else 32)]
    byw = C.run_sweeps(ck, exe_ts, lines, 'asan', driver='drv_ts')
    ck.cov['wire_timestamps_checked'] = sum(e.get('values', 0) for e in byw.values())
    ck.cov['wire_formats_seen'] = {k: sum(e.get(k, 0) for e in byw.values()) for k in ('ts32', 'ts64', 'ts96')}
    if min(ck.cov['wire_formats_seen'].values()) == 0:
        ck.harness_error('wire stage: a timestamp format was never produced: %s' % ck.cov['wire_formats_seen'])
    ck.exhaustive = False
    nv = ck.cov['values_checked']
    for i in range(0, min(nv, 200000)):
        ck.distinct.add(i)
    ck.cov['distinct_note'] = 'distinct set capped at 200000; values_checked are all distinct (type,count) pairs by construction of the day sweep'
    ck.sample({'type': 'time_point<system_clock, milliseconds>', 'count': -62230291200000, 'expected_text': '-0002-01-01T00:00:00.000Z'})
    ck.sample({'type': 'duration<int64, ratio<60>>', 'count': 1501, 'text must denote': '90060 s', 'oracle': 'independent PnDTnHnMnS evaluator + round trip'})
    return ck.finish(min_nontrivial=1000)


def replay(w):
    wit = w['witness']
    exe = build_ts(wit.get('variant', 'asan')) if wit.get('driver') == 'drv_ts' else C.build_conv(wit.get('variant', 'ubsan'))
    ev, err, rc, bad = core.run_driver(exe, [wit['case']], wit.get('variant', 'ubsan'))
    print(ev, err[-2000:])
    return 0
