"""C10  Memory and stream loading are equivalent wherever buffer boundaries fall."""
import random

from vlib import core
from checks import doccommon as D
from checks import hostile as H

PID = 'C10'
STEPS = [1, 2, 3, 7, 31, 32, 33, 255, 256, 257, 1000]


def prebuild():
    D.build_doc('asan')
    D.build_doc('asan32')


def outcome(e):
    if e.get('out') == 'ok':
        return ('ok', e.get('desc'))
    return ('exc', e.get('exc'), e.get('code'))


def run(tier):
    ck = core.Check(PID, tier, 'exploration',
                    'the same bytes are loaded through the memory entry point and through stream kinds (stringstream, short-read streambuf with '
                    '1..1000 bytes per call, non-seekable streambuf) and the outcomes (value, or exception class + error code) are compared; documents: '
                    'models whose first member is a string of every length 0..300 (real 256-byte buffers) and 0..80 (hooked 32-byte buffers) so that '
                    'every later key / value / multi-byte character / quoted field crosses the buffer boundary at every offset, the valid corpus of all '
                    'model types, and hostile mutations of it (invalid documents must fail the same way); saving to a UTF-8 stream without BOM must give '
                    'the bytes of saving to memory. distinct non-trivial = distinct (archive, type, document, stream kind)',
                    ['non-seekable streams are compared only when they do not need repositioning (reported separately as needs-seek)'])
    q = tier == 'quick'
    rng = random.Random(core.mix(ck.seed, 'c10'))
    total_align = {}
    for variant, chunk, pads in (('asan', 256, range(0, 301)), ('asan32', 32, range(0, 81))):
        exe = D.build_doc(variant)
        # ---- corpus: padded models at every pad length + random types
        lines = []
        for arch in ('msgpack', 'csv', 'json', 'xml'):
            t = D.PADDED[arch]
            plist = list(pads) if arch in ('msgpack', 'csv') else list(pads)[::7]
            for p in plist:
                for rep in range(1 if q else 6):
                    lines.append(D.case_line('save', arch, t, 'p_%s_%d_%d' % (arch, p, rep), seed=rng.randrange(1, 2 ** 62), sink='mem', padlen=p, maxsize=3))
                    lines.append(D.case_line('save', arch, t, 'q_%s_%d_%d' % (arch, p, rep), seed=rng.randrange(1, 2 ** 62), sink='sstream', padlen=p, maxsize=3))
            for t2 in (D.TYPES[arch] if variant == 'asan' else ['zoo', 'csvrows', 'dyn', 'maps', 'v_str', 'csvmaps', 'm_i64_str']):
                if t2 in D.TYPES[arch]:
                    for rep in range(3 if q else 40):
                        fmtopts = {}
                        if arch in ('json', 'xml') and rng.random() < 0.5:
                            fmtopts = dict(fmt=1, padc=rng.choice(['s', 't']), padn=rng.choice([1, 2, 3, 4, 8]))
                        lines.append(D.case_line('save', arch, t2, 'r_%s_%s_%d' % (arch, t2, rep), seed=rng.randrange(1, 2 ** 62), sink='mem', maxsize=3, **fmtopts))
        by, crashes = core.run_cases(exe, lines, variant)
        for ln, key, err, rc in crashes:
            ck.violation('crash-on-save/%s' % key, {'driver': 'drv_doc', 'variant': variant, 'case': ln, 'stderr': err[-1500:]}, 'process died while saving: ' + key)
        docs = []
        saved_pairs = {}
        for cid, e in by.items():
            if e.get('out') != 'ok':
                continue
            parts = cid.split('_')
            arch = parts[1]
            typ = D.PADDED[arch] if parts[0] in 'pq' else '_'.join(parts[2:-1])
            raw = bytes.fromhex(e['bytes'])
            if parts[0] == 'q':
                continue
            docs.append((arch, typ, raw, 'valid-pad%s' % parts[2] if parts[0] == 'p' else 'valid'))
        # stream save == memory save (same seed): re-save the p_ documents through a stream
        lines2 = []
        for ln in lines:
            if ln.startswith('op=save') and ' id=p_' in ln:
                lines2.append(ln.replace(' id=p_', ' id=s_').replace('sink=mem', 'sink=sstream'))
            elif ln.startswith('op=save') and ' id=r_' in ln:
                lines2.append(ln.replace(' id=r_', ' id=t_').replace('sink=mem', 'sink=sstream'))      # every type, with its format options
        by2, _ = core.run_cases(exe, lines2, variant)
        for cid, e in by2.items():
            e0 = by.get(('p_' if cid.startswith('s_') else 'r_') + cid[2:])
            if e0 and e0.get('out') == 'ok' and e.get('out') == 'ok':
                ck.case(('save', cid, variant), nontrivial=True)
                if e0['bytes'] != e['bytes']:
                    arch = cid.split('_')[1]
                    ck.violation('save-differs/%s' % arch, {'driver': 'drv_doc', 'variant': variant, 'case': [l for l in lines2 if (' id=' + cid + ' ') in l][0], 'mem': e0['bytes'][:2000], 'stream': e['bytes'][:2000]},
                                 'saving to a UTF-8 stream without BOM differs from saving to memory (%s)' % arch)
        # hostile variants
        hostile = []
        for arch, typ, raw, label in docs:
            if rng.random() < (0.5 if q else 1.0):
                bad, l2 = H.mutate(raw, arch, rng)
                hostile.append((arch, typ, bad[:20000], 'hostile-' + l2))
        alldocs = docs + hostile
        # ---- load through every entry point
        lines, meta = [], {}
        k = 0
        for arch, typ, raw, label in alldocs:
            base = 'd%d' % k
            k += 1
            kinds = [dict(src='mem'), dict(src='sstream')]
            steps = rng.sample(STEPS, 3 if q else 6)
            kinds += [dict(src='slow', step=s) for s in steps]
            kinds.append(dict(src='noseek', step=rng.choice(STEPS)))
            pol = rng.choice([dict(), dict(mis='skip', ovf='skip', utf='skip')])
            if arch == 'csv' and rng.random() < 0.3:
                pol = dict(pol, sep=rng.choice(['semicolon', 'tab', 'space', 'pipe']))      # the separator option must reach the memory and the stream reader alike
            for j, kd in enumerate(kinds):
                cid = '%s_%d' % (base, j)
                line = D.case_line('load', arch, typ, cid, doc=raw.hex(), **kd, **pol)
                lines.append(line)
                meta[cid] = (arch, typ, raw, label, kd, line, base)
        nul_doc = b'a,b\r\n1,x\x00y\r\n2,z\r\n'
        for j, kd in enumerate([dict(src='mem'), dict(src='sstream'), dict(src='slow', step=3)]):
            cid = 'nul_%d' % j
            lines.append(D.case_line('load', 'csv', 'csvmaps', cid, doc=nul_doc.hex(), **kd))
            meta[cid] = ('csv', 'csvmaps', nul_doc, 'valid-directed-nul', kd, lines[-1], 'nul')
        utf_doc = b'["a\xc0\x80b"]'
        for j, kd in enumerate([dict(src='mem'), dict(src='sstream'), dict(src='slow', step=3)]):
            cid = 'utf_%d' % j
            lines.append(D.case_line('load', 'json', 'v_str', cid, doc=utf_doc.hex(), **kd))
            meta[cid] = ('json', 'v_str', utf_doc, 'hostile-directed-bad-utf8', kd, lines[-1], 'utf')
        bom_doc = b'\xbf[1,2]'
        for j, kd in enumerate([dict(src='mem'), dict(src='sstream'), dict(src='slow', step=3)]):
            cid = 'bom_%d' % j
            lines.append(D.case_line('load', 'json', 'v_i32', cid, doc=bom_doc.hex(), **kd))
            meta[cid] = ('json', 'v_i32', bom_doc, 'hostile-directed-partial-bom', kd, lines[-1], 'bom')
        # documents on which the thorough tier once saw memory and stream disagree (kept as directed cases)
        for name, arch_d, typ_d, doc_d, extra in (('ext0', 'msgpack', 'm_u8_i32', bytes.fromhex('d680'), {}), ('ext1', 'msgpack', 'v_i32', bytes.fromhex('92c7000501'), dict(mis='skip')),
                                                  ('ext2', 'msgpack', 'r_i32', bytes.fromhex('c70005'), {}), ('setskip', 'json', 'set_i32', b'[3212121212121212121869482,2024259981]', dict(mis='skip', ovf='skip')),
                                                  ('setskip2', 'xml', 'set_i32', b'<array><value>99999999999</value><value>5</value></array>', dict(mis='skip', ovf='skip'))):
            for j, kd in enumerate([dict(src='mem'), dict(src='sstream'), dict(src='slow', step=1)]):
                cid = '%s_%d' % (name, j)
                lines.append(D.case_line('load', arch_d, typ_d, cid, doc=doc_d.hex(), **kd, **extra))
                meta[cid] = (arch_d, typ_d, doc_d, 'hostile-directed-' + name, kd, lines[-1], name)
        by, crashes = core.run_cases(exe, lines, variant)
        for ln, key, err, rc in crashes:
            cid = core._line_id(ln)
            arch = meta[cid][0] if cid in meta else '?'
            ck.violation('crash/%s/%s' % (arch, key), {'driver': 'drv_doc', 'variant': variant, 'case': ln[:400000], 'stderr': err[-1500:]}, 'process died while loading: ' + key)
        groups = {}
        for cid, e in by.items():
            groups.setdefault(meta[cid][6], {})[cid] = e
        for base, g in groups.items():
            ref_id = base + '_0'
            if ref_id not in g:
                continue
            arch, typ, raw, label = meta[ref_id][0], meta[ref_id][1], meta[ref_id][2], meta[ref_id][3]
            # the memory entry points of the text archives take UTF-8 only; documents in another encoding (or with a BOM) are compared between the stream kinds
            if arch != 'msgpack' and ('reencode' in label or raw[:2] in (b'\xff\xfe', b'\xfe\xff') or raw[:3] == b'\xef\xbb\xbf' or raw[:4] == b'\x00\x00\xfe\xff' or (len(raw) > 1 and (raw[0] == 0 or raw[1] == 0))):
                ref_id = base + '_1'
                if ref_id not in g:
                    continue
            ref = outcome(g[ref_id])
            for cid, e in g.items():
                if cid == ref_id:
                    continue
                kd = meta[cid][4]
                if ref_id.endswith('_1') and kd['src'] == 'mem':
                    continue      # (memory entry point takes UTF-8 only)
                ck.case((arch, typ, raw[:48], len(raw), str(kd), variant), nontrivial=True)
                o = outcome(e)
                if o == ref:
                    total_align[(variant, arch, len(raw) % chunk)] = 1
                    continue
                if kd['src'] == 'noseek' and o[0] == 'exc' and o[1] in ('SerializationException', 'ParsingException') and arch == 'msgpack':
                    ck.count('needs_seek_cases')
                    continue
                if arch == 'json' and meta[ref_id][4]['src'] == 'mem' and o[0] == 'exc' and o[1] == 'ParsingException' and not (ref[0] == 'exc' and ref[1] == 'ParsingException'):
                    try:
                        raw.decode('utf-8')
                        bad_utf8 = False
                    except UnicodeDecodeError:
                        bad_utf8 = True
                    if bad_utf8 and raw[:1] not in (b'\xef', b'\xbb', b'\xbf'):
                        ck.violation('json/invalid-utf8-accepted-from-memory-rejected-from-stream', {'driver': 'drv_doc', 'variant': variant, 'case': meta[cid][5][:400000], 'mem_case': meta[ref_id][5][:400000]},
                                     'JSON with ill-formed UTF-8: memory -> %s, stream -> ParsingException' % str(ref)[:80])
                        continue
                if arch == 'json' and meta[ref_id][4]['src'] == 'mem' and ref[0] == 'ok' and o[0] == 'exc' and raw[:1] in (b'\xef', b'\xbb', b'\xbf') and raw[:3] != b'\xef\xbb\xbf':
                    ck.violation('json/memory-accepts-partial-utf8-bom', {'driver': 'drv_doc', 'variant': variant, 'case': meta[cid][5][:400000], 'mem_case': meta[ref_id][5][:400000]},
                                 'JSON preceded by a fragment of the UTF-8 BOM is accepted from memory and rejected from a stream')
                    continue
                if arch == 'csv' and kd['src'] != 'mem' and meta[ref_id][4]['src'] == 'mem' and b'\x00' in raw[:256] and raw[:1].isascii():
                    ck.violation('csv/stream-utf8-nobom/text-with-nul-misdetected', {'driver': 'drv_doc', 'variant': variant, 'case': meta[cid][5][:400000], 'mem_case': meta[ref_id][5][:400000]},
                                 'BOM-less UTF-8 CSV with U+0000 loaded differently from memory and from a stream')
                    continue
                cls = 'value' if (o[0] == 'ok' and ref[0] == 'ok') else 'mem-ok-stream-fails' if ref[0] == 'ok' else 'mem-fails-stream-ok' if o[0] == 'ok' else 'error-category'
                if cls == 'value':
                    d = D.first_diff(ref[1], o[1]) or '?'
                    cls += d.replace('/o/', '/')[:60]
                elif cls == 'error-category':
                    cls += '/%s:%s-vs-%s:%s' % (ref[1], ref[2], o[1], o[2])
                ck.violation('%s/%s/%s%s' % (arch, 'valid' if label.startswith('valid') else 'hostile', cls, '/chunk32' if variant == 'asan32' else ''),
                             {'driver': 'drv_doc', 'variant': variant, 'case': meta[cid][5][:400000], 'mem_case': meta[ref_id][5][:400000], 'mem_outcome': str(ref)[:800], 'stream_outcome': str(o)[:800], 'label': label},
                             '%s %s (%s, %d bytes): memory -> %s, %s -> %s' % (arch, typ, label, len(raw), str(ref)[:120], kd, str(o)[:120]))
        if len(ck.samples) < 4:
            ck.sample({'variant': variant, 'chunk_size': chunk, 'documents': len(alldocs), 'entry_points_per_document': 6 if q else 9})
    ck.cov['document_length_mod_chunk_seen'] = len(total_align)
    ck.cov['stream_steps'] = STEPS
    return ck.finish(min_nontrivial=2000)


def replay(w):
    wit = w['witness']
    exe = D.build_doc(wit.get('variant', 'asan'))
    ev, err, rc, bad = core.run_driver(exe, [wit['case']] + ([wit['mem_case']] if 'mem_case' in wit else []), wit.get('variant', 'asan'))
    print(ev, err[-2000:])
    return 0
