"""C19  Independent serializations on different threads do not interfere."""
import json
import random
import re
import subprocess
from concurrent.futures import ThreadPoolExecutor

from vlib import build, core

PID = 'C19'
KINDS = ['json zoo memory', 'json zoo utf-16 stream', 'xml zoo', 'msgpack zoo memory', 'msgpack zoo stream', 'csv rows memory', 'csv rows utf-32 stream', 'enum-keyed map + enum vector',
         'multimap / pair (function-local static key names)', 'Convert:: enum, numbers, chrono, UTF', 'shared const source object saved by all threads',
         'shared const input buffers loaded by all threads', 'failing loads (exceptions stay thread-local)', 'dynamic trees']


def build_thr():
    return build.build('drv_thr', 'tsan', ['drv_thr.cpp'], libs=('-lpugixml', '-pthread'))


def prebuild():
    build_thr()


def one(exe, args):
    env = core.sanitizer_env('tsan', {'TSAN_OPTIONS': 'halt_on_error=0:second_deadlock_stack=1:exitcode=66:history_size=4'})
    try:
        p = subprocess.run([exe] + args, stdout=subprocess.PIPE, stderr=subprocess.PIPE, env=env, timeout=3000)
    except subprocess.TimeoutExpired:
        return args, None, 'timeout', -1
    return args, p.stdout.decode('utf-8', 'replace'), p.stderr.decode('utf-8', 'replace'), p.returncode


def tsan_reports(err):
    """-> list of (kind, first library frame) of the report blocks"""
    out = []
    for blk in err.split('==================')[1:]:
        m = re.search(r'WARNING: ThreadSanitizer: ([^\n(]+)', blk)
        if not m:
            continue
        frames = re.findall(r'#\d+ (\S+) .*?([\w./-]+\.(?:h|cpp|hpp)):(\d+)', blk)
        lib = [f for f in frames if 'bitserializer' in f[1] or '/src/' in f[1]]
        top = lib[0] if lib else (frames[0] if frames else ('?', '?', '0'))
        out.append((m.group(1).strip(), '%s:%s' % (top[1].split('/')[-1], top[0][:60]), blk[:3000]))
    return out


def run(tier):
    ck = core.Check(PID, tier, 'exploration',
                    'T threads (2..64) released together by a spin barrier each run I serialization tasks on their own objects, buffers and streams - round trips of the '
                    'whole model zoo through JSON / XML / MsgPack / CSV (memory and encoded streams), enum-keyed maps, pairs and multimaps, plain Convert:: calls, a '
                    'shared const object saved by all threads, shared const input buffers loaded by all threads, failing loads - under ThreadSanitizer (gcc '
                    '-fsanitize=thread, library sources instrumented); afterwards the same tasks are recomputed on one thread and the digests (bytes produced + '
                    'description of the loaded value) compared. Each process is a new chance for first-use races of function-local statics (all threads start '
                    'with the same task order unless staggered). Violation: any ThreadSanitizer report, any digest difference. distinct non-trivial = (threads, '
                    'iterations, seed, stagger) process runs; tasks executed are counted in coverage.tasks',
                    ['third-party code (RapidJSON headers are instrumented as they are header-only; libpugixml.so is not instrumented: races inside it would be invisible, its calls are on thread-private documents)',
                     'helgrind is not used (it does not model C++11 atomics of the harness barrier; reports there would be noise)'])
    exe = build_thr()
    q = tier == 'quick'
    rng = random.Random(core.mix(ck.seed, 'c19'))
    runs = []
    nproc = 60 if q else 1500
    for i in range(nproc):
        t = rng.choice([2, 3, 4, 8, 8, 16, 16, 32] + ([] if q else [64]))
        iters = rng.choice([14, 28, 60]) if q else rng.choice([14, 60, 200])
        args = ['threads=%d' % t, 'iters=%d' % iters, 'seed=%d' % rng.randrange(1, 2 ** 40), 'stagger=%d' % (1 if rng.random() < 0.4 else 0)]
        if rng.random() < 0.3:
            # concentrate all threads on a few task kinds (more same-code overlap)
            mask = 0
            for k in rng.sample(range(len(KINDS)), rng.choice([1, 2, 3])):
                mask |= 1 << k
            args.append('kinds=%d' % mask)
        runs.append(args)
    tasks = 0
    per_kind = [0] * len(KINDS)
    reports_seen = 0
    with ThreadPoolExecutor(max_workers=6) as ex:
        for args, out, err, rc in ex.map(lambda a: one(exe, a), runs):
            line = ' '.join(args)
            if out is None:
                ck.inconc('wall-clock watchdog', {'args': line})
                continue
            wit = {'driver': 'drv_thr', 'variant': 'tsan', 'case': line}
            try:
                e = json.loads(out.strip().splitlines()[-1])
            except Exception:
                e = None
            reps = tsan_reports(err)
            for kind, frame, blk in reps:
                reports_seen += 1
                ck.violation('tsan/%s/%s' % (kind, frame), dict(wit, report=blk), 'ThreadSanitizer: %s at %s' % (kind, frame))
            if e is None:
                if not reps:
                    ck.violation('crash/rc=%s' % rc, dict(wit, stderr=err[-2000:]), 'driver died without output (rc=%s)' % rc)
                continue
            ck.case(tuple(args), nontrivial=True)
            tasks += e['ops']
            for k, n in enumerate(e['per_kind']):
                per_kind[k] += n
            if e['mismatches']:
                ck.violation('result-differs/kind-%s' % e['first_mismatch'].split('kind ')[1].split(' ')[0], dict(wit, event=e),
                             '%d task results differ between the concurrent and the sequential run; first: %s' % (e['mismatches'], e['first_mismatch']))
            if rc not in (0, 66) and not reps:
                ck.violation('crash/rc=%s' % rc, dict(wit, stderr=err[-2000:]), 'driver exit code %s' % rc)
    ck.cov['tasks'] = tasks
    ck.cov['tasks_per_kind'] = dict(zip(KINDS, per_kind))
    ck.cov['tsan_reports'] = reports_seen
    ck.sample({'process': ' '.join(runs[0]), 'monitor': 'ThreadSanitizer + digest comparison with the sequential run'})
    return ck.finish(min_nontrivial=20)


def replay(w):
    wit = w['witness']
    print(one(build_thr(), wit['case'].split(' ')))
    return 0
