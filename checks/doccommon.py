"""Shared helpers for the archive-document checks (drv_doc)."""
import json
import random

from vlib import build, core

DOC_SOURCES = ['drv_doc.cpp', 'doc_csv.cpp'] + ['doc_json_%s.cpp' % p for p in 'abcd'] + ['doc_msgpack_%s.cpp' % p for p in 'abcd'] + ['doc_xml_%s.cpp' % p for p in 'bcd']

ROOT_SCALARS = ['r_bool', 'r_i8', 'r_u8', 'r_i16', 'r_u16', 'r_i32', 'r_u32', 'r_i64', 'r_u64', 'r_f32', 'r_f64', 'r_str', 'r_wstr', 'r_u16str', 'r_u32str', 'r_enum', 'r_tpms', 'r_durs', 'r_char']
ROOT_VECTORS = ['v_bool', 'v_i8', 'v_u8', 'v_i16', 'v_u16', 'v_i32', 'v_u32', 'v_i64', 'v_u64', 'v_f32', 'v_f64', 'v_str', 'v_u16str', 'v_enum', 'v_tpns', 'v_inner', 'v_derived', 'v_opt', 'v_vec',
                'l_i32', 'fl_i32', 'dq_str', 'set_i32', 'uset_str', 'mmap', 'arr3', 'tup', 'v_char', 'v_bytes']
OBJECTS = ['scalars', 'chrono', 'containers', 'maps', 'wrappers', 'derived', 'dyn', 'inner', 'm_str_i32', 'm_str_str', 'um_str_f64', 'm_wstr_inner', 'pair_is', 'zoo']
TYPED_KEY_MAPS = ['m_i64_str', 'm_u8_i32', 'm_f64_i32', 'm_f32_i32', 'm_tps_i32', 'm_durms_str', 'm_enum_i32', 'm_bool_i32']
TYPES = {
    'json': ROOT_SCALARS + ROOT_VECTORS + OBJECTS + TYPED_KEY_MAPS + ['csvrows'],
    'msgpack': ROOT_SCALARS + ROOT_VECTORS + OBJECTS + TYPED_KEY_MAPS + ['csvrows'],
    'xml': ROOT_VECTORS + OBJECTS + ['csvrows'],
    'csv': ['csvrows', 'csvmaps', 'csvscalars', 'csvlist', 'csvflist', 'csvdeque'],
}
ENCODINGS = ['utf8', 'utf16le', 'utf16be', 'utf32le', 'utf32be']
SEPARATORS = ['comma', 'semicolon', 'tab', 'space', 'pipe']


PADDED = {'json': 'padded', 'xml': 'padded', 'msgpack': 'padded', 'csv': 'csvpadded'}


def build_doc(variant='asan'):
    return build.build('drv_doc', variant, DOC_SOURCES)


def prebuild_doc():
    build_doc('asan')


def rand_config(rng, arch):
    """One cell of the output-configuration matrix. Returns (dict of case keys, cell label)."""
    cfg = {}
    stream = rng.random() < 0.6
    if arch == 'msgpack':
        cfg['sink'] = 'sstream' if stream else 'mem'
        cfg['src'] = rng.choice(['mem', 'sstream', 'slow', 'noseek'])
        if cfg['src'] in ('slow', 'noseek'):
            cfg['step'] = rng.choice([1, 2, 3, 5, 7, 64, 255, 256, 257, 1000])
        return cfg, 'msgpack/%s/%s' % (cfg['sink'], cfg['src'])
    if stream:
        cfg['sink'] = 'sstream'
        cfg['enc'] = rng.choice(ENCODINGS)
        cfg['bom'] = rng.choice([0, 1])
        cfg['src'] = rng.choice(['sstream', 'slow'])
        if cfg['src'] == 'slow':
            cfg['step'] = rng.choice([1, 2, 3, 5, 7, 64, 255, 256, 257, 1000])
        if cfg['enc'] == 'utf8' and not cfg['bom'] and rng.random() < 0.3:
            cfg['src'] = 'mem'
    else:
        cfg['sink'] = 'mem'
        cfg['src'] = rng.choice(['mem', 'mem', 'sstream', 'slow'])
        if cfg['src'] == 'slow':
            cfg['step'] = rng.choice([1, 3, 64, 256, 1000])
    label = '%s/%s/%s/%s/bom%s' % (arch, cfg['sink'], cfg['src'], cfg.get('enc', 'utf8'), cfg.get('bom', 0))
    if arch in ('json', 'xml'):
        if rng.random() < 0.5:
            cfg['fmt'] = 1
            cfg['padc'] = rng.choice(['s', 't'])
            cfg['padn'] = rng.choice([1, 2, 4])
            label += '/fmt-%s%d' % (cfg['padc'], cfg['padn'])
        else:
            label += '/compact'
    if arch == 'csv':
        cfg['sep'] = rng.choice(SEPARATORS)
        label += '/' + cfg['sep']
    return cfg, label


def case_line(op, arch, typ, cid, **kw):
    parts = ['op=%s' % op, 'id=%s' % cid, 'arch=%s' % arch, 'type=%s' % typ]
    for k, v in kw.items():
        parts.append('%s=%s' % (k, v))
    return ' '.join(parts)


def first_diff(a, b, path=''):
    """Path of the first difference between two described values."""
    if type(a) != type(b):
        return path or '/'
    if isinstance(a, dict):
        for k in a:
            if k not in b:
                return path + '/' + k
            d = first_diff(a[k], b[k], path + '/' + k)
            if d:
                return d
        for k in b:
            if k not in a:
                return path + '/' + k
        return None
    if isinstance(a, list):
        if len(a) != len(b):
            return path + '/#len'
        for i, (x, y) in enumerate(zip(a, b)):
            d = first_diff(x, y, path + '/[]')
            if d:
                return d
        return None
    return None if a == b else (path or '/')


def leaf_diffs(a, b, path='', out=None, limit=50):
    """All differing leaves as (path, a, b)."""
    if out is None:
        out = []
    if len(out) >= limit:
        return out
    def is_leaf(d):
        return len(d) == 1 and list(d)[0] in ('f32', 'f64', 's', 'tp', 'dur', 'e') and not isinstance(list(d.values())[0], (dict, list))
    if isinstance(a, dict) and isinstance(b, dict) and set(a) == set(b) and not is_leaf(a):
        for k in a:
            leaf_diffs(a[k], b[k], path + '/' + k, out, limit)
    elif isinstance(a, list) and isinstance(b, list) and len(a) == len(b):
        for x, y in zip(a, b):
            leaf_diffs(x, y, path + '/[]', out, limit)
    elif a != b:
        out.append((path, a, b))
    return out


def ulp_distance(a, b, key):
    """Distance in units in the last place between two described floats, or None."""
    if not (isinstance(a, dict) and isinstance(b, dict) and key in a and key in b) or not isinstance(a[key], str) or not isinstance(b[key], str) or 'nan' in (a[key], b[key]):
        return None
    bits = 32 if key == 'f32' else 64
    def ordered(h):
        v = int(h, 16)
        return v - (1 << (bits - 1)) if v >> (bits - 1) else -v if False else ((1 << (bits - 1)) - 1 - v if False else v)
    x, y = int(a[key], 16), int(b[key], 16)
    if (x >> (bits - 1)) != (y >> (bits - 1)):
        return None
    return abs(x - y)
