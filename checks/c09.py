"""C09  CSV written and read per RFC 4180 for any field content and separator."""
import csv
import io
import json
import random

from vlib import core
from checks import c03
from checks.fields import hs
from oracles import shapes as S

PID = 'C09'
SEPS = {'comma': ',', 'semicolon': ';', 'tab': '\t', 'space': ' ', 'pipe': '|'}
ENC_PY = {'utf8': 'utf-8', 'utf16le': 'utf-16-le', 'utf16be': 'utf-16-be', 'utf32le': 'utf-32-le', 'utf32be': 'utf-32-be'}
BOMS = {'utf8': b'\xef\xbb\xbf', 'utf16le': b'\xff\xfe', 'utf16be': b'\xfe\xff', 'utf32le': b'\xff\xfe\x00\x00', 'utf32be': b'\x00\x00\xfe\xff'}


def prebuild():
    c03.prebuild()


class Malformed(Exception):
    pass


def rfc4180_parse(text, sep):
    """Strict RFC 4180 reader (CRLF or LF record ends, optional final line break). -> list of records (lists of fields)"""
    recs, rec, i, n = [], [], 0, len(text)
    if n == 0:
        return recs
    while True:
        # one field
        if i < n and text[i] == '"':
            i += 1
            buf = []
            while True:
                if i >= n:
                    raise Malformed('unterminated quoted field')
                ch = text[i]
                if ch == '"':
                    if i + 1 < n and text[i + 1] == '"':
                        buf.append('"')
                        i += 2
                        continue
                    i += 1
                    break
                buf.append(ch)
                i += 1
            field = ''.join(buf)
            if i < n and text[i] not in (sep, '\r', '\n'):
                raise Malformed('text after closing quote')
        else:
            j = i
            while j < n and text[j] not in (sep, '\r', '\n'):
                if text[j] == '"':
                    raise Malformed('quote inside an unquoted field')
                j += 1
            field = text[i:j]
            i = j
        rec.append(field)
        if i >= n:
            recs.append(rec)
            return recs
        if text[i] == sep:
            i += 1
            if i >= n:
                rec.append('')
                recs.append(rec)
                return recs
            continue
        if text[i] == '\r':
            if i + 1 < n and text[i + 1] == '\n':
                i += 2
            else:
                raise Malformed('bare CR outside quotes')
        else:
            i += 1
        recs.append(rec)
        rec = []
        if i >= n:
            return recs


def render(header, rows, sep, rng, quote_all=False):
    """Random RFC 4180 rendering: optional quoting, LF or CRLF, optional final line break."""
    def fld(s):
        must = any(c in s for c in ('"', sep, '\r', '\n'))
        if must or quote_all or rng.random() < 0.3:
            return '"' + s.replace('"', '""') + '"'
        return s
    eol = rng.choice(['\r\n', '\n'])
    lines = [sep.join(fld(h) for h in header)] + [sep.join(fld(c) for c in r) for r in rows]
    return eol.join(lines) + (eol if rng.random() < 0.6 else '')


def rand_cell(rng, sep, hostile):
    ctx = {'nonul': True}
    r = rng.random()
    if r < 0.1:
        return ''
    txt = S.rand_text(rng, ctx, 10)
    if rng.random() < hostile:
        ins = rng.choice(['"', '""', sep, '\r\n', '\n', '\r', ' ', sep + '"', '"' + sep, '\n"', ',', ';', '\t', '|'])
        p = rng.randrange(len(txt) + 1)
        txt = txt[:p] + ins + txt[p:]
    if rng.random() < 0.05:
        txt = ''.join(chr(S.rand_cp(rng, ctx)) for _ in range(rng.choice([31, 32, 33, 255, 256, 257, 300])))
    return txt


def rand_table(rng, sep, hostile=0.35):
    ncol = rng.randrange(1, 7)
    header = []
    while len(header) < ncol:
        h = S.rand_name(rng, {'xml': True}) if rng.random() < 0.7 else (rand_cell(rng, sep, hostile) or 'h')
        h = h.lstrip('\ufeff') or 'h'          # a leading U+FEFF of the first name is indistinguishable from a BOM
        if h not in header:
            header.append(h)
    rows = [[rand_cell(rng, sep, hostile) for _ in header] for _ in range(rng.randrange(0, 6))]
    return header, rows


def hexcell(s):
    return s.encode('utf-8').hex() or '-'


def run(tier):
    ck = core.Check(PID, tier, 'exploration',
                    'tables (1..6 columns, 0..5 records) whose header names and cells contain separators, quotes, doubled quotes, CR, LF, CRLF, blanks, '
                    'every allowed separator character and random Unicode up to 300 characters. Writer: rows as vector<map<string,string>> saved to memory and '
                    'to streams in 5 encodings with/without BOM and 5 separators; the text is parsed by a strict RFC 4180 reader written for this check (cross-checked '
                    'with CPython csv) and must give the header (sorted keys) and exactly the original strings. Reader: the same tables rendered with optional '
                    'quoting, LF or CRLF, optional final line break, shuffled column order, encoded in 5 encodings, loaded from memory and streams (256-byte and '
                    'hooked 32-byte buffers); records with fewer or more fields than the header must be rejected. '
                    'distinct non-trivial = distinct (table, separator, rendering, encoding, source)',
                    ['U+0000 is not generated (recorded finding of C01/C10: BOM-less stream with NUL is misdetected)',
                     'a table whose only column holds an empty string in some record is rendered with that field quoted (an empty line is not a record in RFC 4180 readers)'])
    q = tier == 'quick'
    rng = random.Random(core.mix(ck.seed, 'c09'))
    n = 8000 if q else 400000
    exe = c03.build_req('asan')
    # ---- writer
    lines, meta = [], {}
    for i in range(n):
        sepname = rng.choice(list(SEPS))
        sep = SEPS[sepname]
        header, rows = rand_table(rng, sep)
        stream = rng.random() < 0.6
        enc = rng.choice(list(ENC_PY)) if stream else 'utf8'
        bom = rng.randrange(2) if stream else 0
        cid = 'w%d' % i
        line = 'op=csv id=%s mode=save sep=%s enc=%s bom=%d sink=%s cols=%s rows=%s' % (cid, sepname, enc, bom, 'sstream' if stream else 'mem', ','.join(hexcell(h) for h in header),
                                                                                     ';'.join(','.join(hexcell(c) for c in r) for r in rows))
        lines.append(line)
        meta[cid] = (sepname, header, rows, enc, bom, stream, line)
    by, crashes = core.run_cases(exe, lines, 'asan')
    for ln, key, err, rc in crashes:
        ck.violation('crash/%s' % key, {'driver': 'drv_req', 'variant': 'asan', 'case': ln[:400000], 'stderr': err[-1500:]}, 'process died: ' + key)
    for cid, e in by.items():
        sepname, header, rows, enc, bom, stream, line = meta[cid]
        sep = SEPS[sepname]
        ck.case(('save', cid, line[-200:]), nontrivial=True)
        wit = {'driver': 'drv_req', 'variant': 'asan', 'case': line, 'bytes': e.get('bytes', '')[:3000], 'header': header, 'rows': rows}
        if e.get('out') != 'ok':
            ck.violation('writer/exception/%s' % e.get('code'), dict(wit, event=str(e)[:600]), 'saving a table raised %s' % e.get('what'))
            continue
        raw = bytes.fromhex(e['bytes'])
        b = BOMS[enc]
        has = raw.startswith(b) and not (enc == 'utf16le' and raw.startswith(BOMS['utf32le']))
        if has != bool(bom):
            ck.violation('writer/bom-%s/%s' % ('missing' if bom else 'unexpected', enc), wit, 'BOM %s, configured writeBom=%s' % ('present' if has else 'absent', bool(bom)))
            continue
        try:
            text = raw[len(b) if has else 0:].decode(ENC_PY[enc])
        except UnicodeDecodeError as ex:
            ck.violation('writer/encoding/%s' % enc, wit, 'output is not well-formed %s: %s' % (enc, ex))
            continue
        order = sorted(range(len(header)), key=lambda k: header[k].encode('utf-8'))
        want = ([[header[k] for k in order]] + [[r[k] for k in order] for r in rows]) if rows else None
        try:
            got = rfc4180_parse(text, sep)
        except Malformed as ex:
            kind = 'bare-CR-not-quoted' if 'bare CR' in str(ex) else str(ex).replace(' ', '-')
            ck.violation('writer/malformed/%s' % kind, dict(wit, error=str(ex), text=text[:600]), 'strict RFC 4180 reader rejects the output: %s' % ex)
            continue
        # second opinion on the reference parser itself
        try:
            alt = list(csv.reader(io.StringIO(text, newline=''), delimiter=sep, strict=True))
            if alt != got and not any(r == [] for r in alt):
                ck.count('reference_parsers_disagree')
        except csv.Error:
            ck.count('reference_parsers_disagree')
        if want is None:
            if got not in ([], [['']]) and not (len(got) == 1):
                ck.violation('writer/zero-rows', dict(wit, text=text[:300]), 'table without records produced %r' % got[:3])
            continue
        if got != want:
            why = 'records %d, expected %d' % (len(got), len(want)) if len(got) != len(want) else 'header' if got[0] != want[0] else 'cell'
            ck.violation('writer/differs/%s' % why.split(' ')[0], dict(wit, parsed=str(got)[:1500], text=text[:600]), 'independent parser recovers other data: %s' % why)
    # ---- reader
    for variant, share in (('asan', 0.6), ('asan32', 0.4)):
        exe = c03.build_req(variant)
        lines, meta = [], {}
        for i in range(int(n * share)):
            sepname = rng.choice(list(SEPS))
            sep = SEPS[sepname]
            header, rows = rand_table(rng, sep)
            order = list(range(len(header)))
            rng.shuffle(order)
            h2, r2 = [header[k] for k in order], [[r[k] for k in order] for r in rows]
            ragged = None
            if rows and rng.random() < 0.15:
                k = rng.randrange(len(r2))
                r2 = [list(r) for r in r2]
                if rng.random() < 0.5 and len(h2) > 1:
                    r2[k] = r2[k][:-1]
                    ragged = 'fewer'
                else:
                    r2[k] = r2[k] + [rng.choice(['', 'x'])]
                    ragged = 'more'
            single_empty = any(r == [''] for r in r2)
            text = render(h2, r2, sep, rng, quote_all=single_empty)
            src = rng.choice(['mem', 'mem', 'sstream', 'slow'])
            enc = 'utf8' if src == 'mem' else rng.choice(list(ENC_PY))
            bom = rng.random() < 0.5 and src != 'mem'        # the memory entry point takes UTF-8 text (a BOM there is outside RFC 4180 and C13)
            if enc != 'utf8' and not bom and (ord(text[0]) > 127 or (len(text) > 1 and ord(text[1]) > 127) or len(text) < 2):
                bom = True
            doc = (BOMS[enc] if bom else b'') + text.encode(ENC_PY[enc])
            cid = 'r%d' % i
            line = 'op=csv id=%s mode=load sep=%s src=%s step=%d doc=%s' % (cid, sepname, src, rng.choice([1, 3, 7, 31, 32, 33, 256]), doc.hex())
            lines.append(line)
            meta[cid] = (sepname, header, rows, enc, bom, src, ragged, line, text)
        by, crashes = core.run_cases(exe, lines, variant)
        for ln, key, err, rc in crashes:
            ck.violation('crash/%s' % key, {'driver': 'drv_req', 'variant': variant, 'case': ln[:400000], 'stderr': err[-1500:]}, 'process died: ' + key)
        sfx = '/chunk32' if variant == 'asan32' else ''
        for cid, e in by.items():
            sepname, header, rows, enc, bom, src, ragged, line, text = meta[cid]
            ck.case(('load', cid, variant, line[-200:]), nontrivial=True)
            where = 'mem' if src == 'mem' else 'stream-%s%s' % (enc, '-bom' if bom else '')
            wit = {'driver': 'drv_req', 'variant': variant, 'case': line, 'text': text[:1500], 'event': str(e)[:1500]}
            if ragged:
                ck.count('ragged_documents')
                if e.get('out') == 'ok':
                    ck.violation('reader/ragged-record-accepted/%s%s' % (ragged, sfx), wit, 'a record with %s fields than the header was accepted' % ragged)
                elif not str(e.get('exc', '')).startswith('BitSerializer::'):
                    # "rejected" means reported by the reader as a parsing error, not an incidental std::out_of_range from a later cell access
                    ck.violation('reader/ragged-record-not-rejected-by-the-parser/%s/%s%s' % (ragged, 'mem' if src == 'mem' else 'stream', sfx), wit,
                                 'a record with %s fields than the header was not rejected by the reader; loading failed later with %s: %s' % (ragged, e.get('exc'), e.get('what')))
                continue
            if e.get('out') != 'ok':
                ck.violation('reader/rejected/%s/%s%s' % (e.get('code'), where, sfx), wit, 'RFC 4180 rendering rejected: %s' % e.get('what'))
                continue
            want = [sorted(json.dumps([hs(h), hs(c)]) for h, c in zip(header, r)) for r in rows]
            got = [sorted(json.dumps(kv) for kv in r['m']) for r in e['rows']]
            if got != want:
                why = 'records' if len(got) != len(want) else 'cells'
                ck.violation('reader/differs/%s/%s%s' % (why, where, sfx), dict(wit, expected=str(want)[:1500]), 'RFC 4180 rendering loads to other rows (%s)' % why)
    return ck.finish(min_nontrivial=1000)


def replay(w):
    return c03.replay(w)
