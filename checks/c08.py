"""C08  JSON/XML output is standard-conformant; standard renderings load identically."""
import json
import random
import re
import xml.parsers.expat

from vlib import core
from checks import doccommon as D
from oracles import render as R
from oracles import shapes as S
from oracles import textmodel as T

PID = 'C08'
ENC_PY = {'utf8': 'utf-8', 'utf16le': 'utf-16-le', 'utf16be': 'utf-16-be', 'utf32le': 'utf-32-le', 'utf32be': 'utf-32-be'}
BOMS = {'utf8': b'\xef\xbb\xbf', 'utf16le': b'\xff\xfe', 'utf16be': b'\xfe\xff', 'utf32le': b'\xff\xfe\x00\x00', 'utf32be': b'\x00\x00\xfe\xff'}
SKIP_TYPES = {'flaky', 'padded', 'v_padded', 'zoo'}      # zoo = union of the others (kept for thorough)


def prebuild():
    D.build_doc('asan')


def reject_constant(name):
    raise ValueError('non-standard JSON constant ' + name)


def parse_json(text):
    return json.loads(text, object_pairs_hook=T.Pairs, parse_constant=reject_constant)


def parse_xml(text_or_bytes):
    """Strict parse by expat -> (root XNode, declared encoding or None)"""
    p = xml.parsers.expat.ParserCreate()
    p.buffer_text = True
    stack, root, decl = [], [None], [None]

    def start(name, attrs):
        n = T.XNode(name, attrs)
        if stack:
            stack[-1].children.append(n)
        else:
            root[0] = n
        stack.append(n)

    def end(name):
        stack.pop()

    def chars(data):
        if stack:
            stack[-1].text += data

    def xmldecl(version, encoding, standalone):
        decl[0] = encoding
    p.StartElementHandler, p.EndElementHandler, p.CharacterDataHandler, p.XmlDeclHandler = start, end, chars, xmldecl
    p.ordered_attributes = False
    p.Parse(text_or_bytes, True)
    # text of elements that have child elements is formatting only
    def strip(n):
        if n.children:
            n.text = n.text.strip(' \t\r\n') if n.text.strip(' \t\r\n') else ''
        for c in n.children:
            strip(c)
    strip(root[0])
    return root[0], decl[0]


def decode_doc(raw, cfg):
    """Checks BOM / encoding of the produced bytes against the configuration -> (text, why)"""
    enc = cfg.get('enc', 'utf8') if cfg.get('sink') == 'sstream' else 'utf8'
    want_bom = bool(cfg.get('bom')) and cfg.get('sink') == 'sstream'
    bom = BOMS[enc]
    has = raw.startswith(bom) and not (enc == 'utf16le' and raw.startswith(BOMS['utf32le']))
    if has != want_bom:
        return None, 'BOM %s, configured writeBom=%s (%s)' % ('present' if has else 'absent', want_bom, enc)
    body = raw[len(bom):] if has else raw
    try:
        return body.decode(ENC_PY[enc]), None
    except UnicodeDecodeError as ex:
        return None, 'output is not well-formed %s: %s' % (enc, ex)


def encode_doc(text, enc, bom):
    return (BOMS[enc] if bom else b'') + text.encode(ENC_PY[enc])


def has_cr(v):
    return '0d' in re.findall(r'"s": "([0-9a-f]*)"', json.dumps(v)) or any('0d' in [h[i:i + 2] for i in range(0, len(h), 2)] for h in re.findall(r'"s": "([0-9a-f]*)"', json.dumps(v)))


def run(tier):
    R.FLOAT_ALT = True
    ck = core.Check(PID, tier, 'exploration',
                    'part A (writer): every JSON / XML model type is saved through sampled cells of {memory, stream} x 5 encodings x BOM x {compact, pretty x pad} '
                    'and the bytes are handed to independent standard parsers (CPython codecs for the encoding and BOM, json with duplicate/constant detection, '
                    'expat); the parsed tree must be the data model of the value: member names and order, nesting, array order and element names <value>/<array>/'
                    '<object>, exact integers, floats that read back bit-identically, exact strings, ISO-8601 texts denoting the same instant / duration, null for '
                    'empty optionals, encoding declaration consistent with the bytes. part B (reader): the data model of a value is re-rendered by independent '
                    'emitters with random insignificant whitespace, escapes (\\uXXXX incl. surrogate pairs, \\/), character references, CDATA, shuffled member order, '
                    'alternative numeric spellings, XML declaration with/without encoding, 5 encodings with and without BOM, and loaded from memory and streams: '
                    'the loaded value must equal the original. Attributes: a class with attribute members is saved and re-loaded through expat the same way. '
                    'distinct non-trivial = distinct (archive, type, document, configuration)',
                    ['JSON doubles written in the alternative 18-digit spelling may be read back 1 ulp off by RapidJSON (recorded finding json/double-parsed-inexactly)',
                     'BOM-less UTF-16/32 renderings are offered to the stream entry point only when the document starts with an ASCII character (C13 scope)'])
    q = tier == 'quick'
    rng = random.Random(core.mix(ck.seed, 'c08'))
    exe = D.build_doc('asan')
    types = {a: [t for t in D.TYPES[a] if t not in SKIP_TYPES or (t == 'zoo' and not q)] for a in ('json', 'xml')}
    # shapes
    lines = [D.case_line('shape', a, t, 'sh_%s_%s' % (a, t)) for a in types for t in types[a]]
    by, _ = core.run_cases(exe, lines, 'asan')
    shapes = {}
    for a in types:
        for t in types[a]:
            e = by.get('sh_%s_%s' % (a, t))
            if e and 'shape' in e:
                shapes[(a, t)] = e['shape']
    if len(shapes) != sum(len(v) for v in types.values()):
        ck.harness_error('could not obtain shapes')
    # ---- part A
    per_type = 60 if q else 1500
    lines, meta = [], {}
    k = 0
    for a in types:
        for t in types[a]:
            for rep in range(per_type):
                cfg, label = D.rand_config(rng, a)
                cid = 'w%d' % k
                k += 1
                extra = dict(maxsize=rng.choice([0, 1, 2, 3, 5]))
                if a == 'xml' and rng.random() < 0.15:
                    extra['xmlcr'] = 1
                lines.append(D.case_line('save', a, t, cid, seed=rng.randrange(1, 2 ** 62), **{kk: vv for kk, vv in cfg.items() if kk not in ('src', 'step')}, **extra))
                meta[cid] = (a, t, cfg, label, lines[-1])
    by, crashes = core.run_cases(exe, lines, 'asan')
    for ln, key, err, rc in crashes:
        ck.violation('crash/%s' % key, {'driver': 'drv_doc', 'variant': 'asan', 'case': ln[:400000], 'stderr': err[-1500:]}, 'process died: ' + key)
    cells = set()
    values = []
    for cid, e in by.items():
        a, t, cfg, label, line = meta[cid]
        if (a, t) not in shapes:
            continue
        if e.get('out') != 'ok':
            ck.count('values_not_saved_' + str(e.get('code')))
            continue
        ck.case((a, t, cid), nontrivial=True)
        cells.add(label)
        raw = bytes.fromhex(e['bytes'])
        wit = {'driver': 'drv_doc', 'variant': 'asan', 'case': line[:400000], 'bytes_head': raw[:600].hex(), 'config': label}
        text, why = decode_doc(raw, cfg)
        if why:
            ck.violation('%s/writer/encoding/%s' % (a, why.split(',')[0].split(':')[0][:60]), wit, why)
            continue
        sh, v = shapes[(a, t)], e['desc']
        values.append((a, t, v))
        del T.CR_NORMALISED[:]
        try:
            if a == 'json':
                tree = parse_json(text)
                why = T.check_json(tree, v, sh)
            else:
                tree, declared = parse_xml(text)
                enc = cfg.get('enc', 'utf8') if cfg.get('sink') == 'sstream' else 'utf8'
                if declared and declared.lower().replace('-', '').replace('_', '') not in (enc, enc[:5], 'utf8' if enc == 'utf8' else enc[:5]):
                    ck.violation('xml/writer/declared-encoding/%s-as-%s' % (enc, declared.lower()), wit, 'document in %s declares encoding="%s"' % (enc, declared))
                    continue
                why = T.check_xml(tree, v, sh)
        except (ValueError, xml.parsers.expat.ExpatError) as ex:
            if a == 'xml' and re.search('<[^>\\s/!?]*[\U00010000-\U0010FFFF]', text):
                ck.count('skipped_supplementary_character_in_element_name')     # valid Name in XML 1.0 5th edition, expat implements the 4th
                continue
            kind = re.sub(r'[0-9]+', 'N', str(ex))[:60]
            ck.violation('%s/writer/rejected-by-standard-parser/%s/%s' % (a, t if 'dup' in kind else '*', kind), dict(wit, error=str(ex)), 'independent parser rejects the output: %s' % ex)
            continue
        if why:
            cls = re.sub(r'/\d+', '/#', why.split(':')[0])
            ck.violation('%s/writer/model/%s%s' % (a, t, cls), dict(wit, difference=why), 'parsed data model differs: ' + why)
        elif a == 'xml' and T.CR_NORMALISED:
            ck.violation('xml/writer/carriage-return-written-raw', dict(wit, difference=repr(T.CR_NORMALISED[0][:80])),
                         'XML text containing U+000D is written unescaped; a conforming parser normalises it to U+000A: %r' % T.CR_NORMALISED[0][:60])
    ck.cov['configuration_cells_part_a'] = len(cells)
    # ---- part B: independent renderings of the data model
    lines, meta = [], {}
    nb = len(values) * 2
    for i in range(nb):
        a, t, v = values[rng.randrange(len(values))]
        if has_cr(v) and a == 'xml':
            continue
        sh = shapes[(a, t)]
        frng = random.Random(rng.getrandbits(64))
        try:
            it = T.item(v, sh, a, frng)
        except (ValueError, KeyError, UnicodeDecodeError):
            ck.count('values_not_renderable')
            continue
        enc = rng.choice(list(ENC_PY))
        bom = rng.random() < 0.5
        if a == 'json':
            text = R.render_json(it, frng)
        else:
            text = R.render_xml(it, frng, declaration=rng.random() < 0.8, encoding=(rng.choice({'utf8': ['UTF-8', 'utf-8'], 'utf16le': ['UTF-16', 'utf-16'], 'utf16be': ['UTF-16'], 'utf32le': ['UTF-32'], 'utf32be': ['UTF-32']}[enc]) if rng.random() < 0.6 else None))
            if it[0] == 'o':
                pass
        src = rng.choice(['mem', 'sstream', 'slow'])
        if src == 'mem':
            enc, bom = 'utf8', (bom if a == 'xml' or True else False)
        if enc != 'utf8' and not bom and (not text or ord(text[0]) > 127 or text[0] == '\0' or len(text) < 2 or ord(text[1]) > 127):
            bom = True
        doc = encode_doc(text, enc, bom)
        cid = 'r%d' % i
        kw = dict(src=src)
        if src == 'slow':
            kw['step'] = rng.choice([1, 3, 7, 64, 255, 256, 257])
        lines.append(D.case_line('load', a, t, cid, doc=doc.hex(), **kw))
        meta[cid] = (a, t, v, enc, bom, src, lines[-1], text)
    by, crashes = core.run_cases(exe, lines, 'asan')
    for ln, key, err, rc in crashes:
        ck.violation('crash/%s' % key, {'driver': 'drv_doc', 'variant': 'asan', 'case': ln[:400000], 'stderr': err[-1500:]}, 'process died: ' + key)
    for cid, e in by.items():
        a, t, v, enc, bom, src, line, text = meta[cid]
        sh = shapes[(a, t)]
        ck.case((a, t, cid, enc, bom, src), nontrivial=True)
        wit = {'driver': 'drv_doc', 'variant': 'asan', 'case': line[:400000], 'document_head': text[:800], 'encoding': enc, 'bom': bom}
        cfgc = ('/stream-%s%s' % (enc, '-bom' if bom else '')) if src != 'mem' else ('/mem-bom' if bom else '')
        if e.get('out') != 'ok' and a == 'json' and e.get('code') == 'Overflow' and any(h in json.dumps(v) for h in ('7f7fffff', 'ff7fffff')):
            ck.violation('json/float-max-rejected-after-inexact-parse', dict(wit, event=str(e)[:1500]), 'FLT_MAX written with all its digits is parsed as a larger double and rejected')
            continue
        if e.get('out') != 'ok':
            ck.violation('%s/reader/rejected/%s:%s%s' % (a, e.get('exc'), e.get('code'), cfgc), dict(wit, event=str(e)[:1500]), 'standard rendering rejected: %s %s' % (e.get('code'), e.get('what')))
            continue
        c0, c1 = S.canon(v, sh), S.canon(e['desc'], sh)
        if c0 != c1:
            diffs = D.leaf_diffs(c0, c1)
            if a == 'json' and e.get('code') == 'Overflow' and False:
                pass
            if a == 'json' and diffs and all((D.ulp_distance(x, y, 'f64') or 99) <= 3 for _, x, y in diffs):
                ck.violation('json/double-parsed-inexactly', dict(wit, difference=str(diffs[:3])), 'a double in an alternative decimal spelling is read 1 ulp off')
                continue
            d = re.sub(r'/\d+', '/#', re.sub(r'/o/', '/', D.first_diff(c0, c1) or '?'))
            ck.violation('%s/reader/differs/%s%s%s' % (a, t, d, cfgc), dict(wit, expected=json.dumps(c0)[:2000], loaded=json.dumps(c1)[:2000]), 'standard rendering loads to another value at %s' % d)
    attribute_part(ck, rng, 1500 if q else 100000)
    return ck.finish(min_nontrivial=1000)


def xml_attr(s, rng):
    q = rng.choice(['"', "'"])
    out = []
    for ch in s:
        r = rng.random()
        if ch == '<':
            out.append('&lt;')
        elif ch == '&':
            out.append('&amp;')
        elif ch == q:
            out.append('&quot;' if q == '"' else '&apos;')
        elif ch in '\t\n\r':
            out.append('&#%d;' % ord(ch) if r < 0.5 else '&#x%X;' % ord(ch))
        elif ch == '>' and r < 0.5:
            out.append('&gt;')
        elif r < 0.08:
            out.append('&#%d;' % ord(ch))
        else:
            out.append(ch)
    return q + ''.join(out) + q


def attribute_part(ck, rng, n):
    """XML attributes: a class with 8 attribute members and one element member saved -> expat; independent rendering -> loaded."""
    import struct
    from checks import c03
    exe = c03.build_req('asan')
    lines, meta = [], {}
    ctx = {'xml': True, 'nonul': True}
    for i in range(n):
        txt = S.rand_text(rng, ctx, 12)
        if rng.random() < 0.3:
            txt += rng.choice(['\t', '\n', '\r', ' ', '"', "'", '<', '&', '>', ']]>', '  '])
            txt = rng.choice(['', ' ', '\n']) + txt
        body = S.rand_text(rng, ctx, 6) or 'b'
        if body.strip(' \t\n\r') != body:
            body = 'x' + body + 'x'
        f64 = S.rand_f64(rng, {'nonfinite': False})
        f32 = S.rand_f32(rng, {'nonfinite': False})
        vals = dict(ai=S.rand_int(rng, -2 ** 63, 2 ** 63 - 1), ab=rng.randrange(2), au8=S.rand_int(rng, 0, 255), ai16=S.rand_int(rng, -32768, 32767), au32=S.rand_int(rng, 0, 2 ** 32 - 1), af=f64, af32=f32)
        cid = 'a%d' % i
        line = 'op=xattr id=%s mode=save fmt=%d as=%s body=%s %s' % (cid, rng.randrange(2), txt.encode().hex(), body.encode().hex(), ' '.join('%s=%s' % kv for kv in vals.items()))
        lines.append(line)
        meta[cid] = (vals, txt, body, line)
    by, crashes = core.run_cases(exe, lines, 'asan')
    for ln, key, err, rc in crashes:
        ck.violation('crash/%s' % key, {'driver': 'drv_req', 'variant': 'asan', 'case': ln[:400000], 'stderr': err[-1500:]}, 'process died: ' + key)
    lines2, meta2 = [], {}
    for cid, e in by.items():
        vals, txt, body, line = meta[cid]
        ck.case(('xattr-save', cid, line[-200:]), nontrivial=True)
        wit = {'driver': 'drv_req', 'variant': 'asan', 'case': line, 'bytes': e.get('bytes', '')[:2000]}
        if e.get('out') != 'ok':
            ck.violation('xml/attributes/writer/exception', dict(wit, event=str(e)[:800]), 'saving attributes raised %s' % e.get('what'))
            continue
        try:
            root, _ = parse_xml(bytes.fromhex(e['bytes']))
        except xml.parsers.expat.ExpatError as ex:
            ck.violation('xml/attributes/writer/rejected-by-standard-parser', dict(wit, error=str(ex)), 'expat rejects the output: %s' % ex)
            continue
        a = root.attrs
        why = None
        if set(a) != {'ai', 'as', 'ab', 'af', 'au8', 'ai16', 'au32', 'af32'}:
            why = 'attributes %s' % sorted(a)
        elif a['as'] != txt:
            why = 'attribute text %r, expected %r' % (a['as'], txt)
        elif any(a[k] != str(vals[k]) for k in ('ai', 'au8', 'ai16', 'au32')) or a['ab'] != ('true' if vals['ab'] else 'false'):
            why = 'integer / bool attributes %s' % {k: a[k] for k in ('ai', 'au8', 'ai16', 'au32', 'ab')}
        elif not T.float_ok(a['af'], vals['af'], 64) or not T.float_ok(a['af32'], vals['af32'], 32):
            why = 'float attributes %s %s do not read back as %s %s' % (a['af'], a['af32'], vals['af'], vals['af32'])
        elif [c.name for c in root.children] != ['body'] or root.children[0].text != body:
            why = 'child elements'
        if why:
            kind = 'whitespace-in-attribute-not-escaped' if ('attribute text' in why and a['as'].replace(' ', '') == txt.replace('\t', '').replace('\n', '').replace('\r', '').replace(' ', '')) else why.split(' ')[0]
            ck.violation('xml/attributes/writer/%s' % kind, dict(wit, difference=why), 'parsed attributes differ: ' + why)
            continue
        # independent rendering of the same element
        f64 = struct.unpack('>d', bytes.fromhex(vals['af']))[0]
        f32 = struct.unpack('>f', bytes.fromhex(vals['af32']))[0]
        attrs = [('ai', str(vals['ai'])), ('as', txt), ('ab', 'true' if vals['ab'] else 'false'), ('af', repr(f64)), ('au8', str(vals['au8'])), ('ai16', str(vals['ai16'])),
                 ('au32', str(vals['au32'])), ('af32', repr(f32))]
        rng.shuffle(attrs)
        doc = '<?xml version="1.0"?>' + rng.choice(['', '\n']) + '<root' + ''.join(rng.choice([' ', '\n', '  ']) + k + rng.choice(['=', ' = ']) + xml_attr(v, rng) for k, v in attrs) + rng.choice(['', ' ']) + '>' + \
            rng.choice(['', '\n  ']) + '<body>' + R.xml_text(body, rng) + '</body>' + rng.choice(['', '\n']) + '</root>'
        lid = 'l' + cid
        lines2.append('op=xattr id=%s mode=load doc=%s' % (lid, doc.encode().hex()))
        meta2[lid] = (vals, txt, body, lines2[-1], doc)
    by2, crashes = core.run_cases(exe, lines2, 'asan')
    for ln, key, err, rc in crashes:
        ck.violation('crash/%s' % key, {'driver': 'drv_req', 'variant': 'asan', 'case': ln[:400000], 'stderr': err[-1500:]}, 'process died: ' + key)
    for lid, e in by2.items():
        vals, txt, body, line, doc = meta2[lid]
        ck.case(('xattr-load', lid, line[-200:]), nontrivial=True)
        wit = {'driver': 'drv_req', 'variant': 'asan', 'case': line, 'document': doc[:1500], 'event': str(e)[:1000]}
        if e.get('out') != 'ok':
            ck.violation('xml/attributes/reader/rejected:%s' % e.get('code'), wit, 'standard rendering of attributes rejected: %s' % e.get('what'))
            continue
        bad = [k for k in ('ai', 'au8', 'ai16', 'au32') if e[k] != vals[k]]
        if e['ab'] != bool(vals['ab']):
            bad.append('ab')
        if e['af'] != vals['af'] and not (int(e['af'], 16) << 1 == 0 and int(vals['af'], 16) << 1 == 0):
            bad.append('af')
        if e['af32'] != vals['af32']:
            bad.append('af32')
        if bytes.fromhex(e['as']).decode('utf-8', 'replace') != txt:
            bad.append('as')
        if bytes.fromhex(e['body']).decode('utf-8', 'replace') != body:
            bad.append('body')
        if bad:
            ck.violation('xml/attributes/reader/differs/%s' % bad[0], wit, 'attributes %s load to other values' % bad)


def contains_out_of_range_time(v):
    """time points outside years 0001..9999 are the subject of C14/C15; re-rendering them needs the extended year forms"""
    s = json.dumps(v)
    for m in re.finditer(r'"tp": (-?\d+)', s):
        if abs(int(m.group(1))) > 2 ** 40:
            return True
    return False


def replay(w):
    wit = w['witness']
    exe = D.build_doc('asan')
    ev, err, rc, bad = core.run_driver(exe, [wit['case']], 'asan')
    print(ev, err[-2000:])
    return 0
