"""C02  No input can crash, hang, or exhaust the loader or the string converters."""
import random
import re

from vlib import core
from checks import doccommon as D
from checks import convcommon as C
from checks import hostile as H

PID = 'C02'
POLICIES = [dict(ovf='throw', mis='throw', utf='throw'), dict(ovf='skip', mis='skip', utf='skip'), dict(ovf='throw', mis='skip', utf='skip'), dict(ovf='skip', mis='throw', utf='throw')]
SRCS = [dict(src='mem'), dict(src='mem'), dict(src='sstream'), dict(src='slow', step=1), dict(src='slow', step=5), dict(src='slow', step=256), dict(src='noseek', step=3)]
ALLOC_SINGLE = 64 << 20
ALLOC_PEAK = 256 << 20


def prebuild():
    D.build_doc('asan')
    C.build_conv('asan')


def death_key(arch, e):
    """Specific, stable key of a dead child: sanitizer class + first library frame."""
    err = e.get('stderr', '')
    death = e.get('death', '?')
    k = core.summarize_sanitizer(err)
    if death == 'hang':
        k = 'hang'
    elif death.startswith('terminate:'):
        k = death
    elif death == 'stack-overflow' or 'stack-overflow' in err:
        fr = re.search(r'#\d+ 0x[0-9a-f]+ in ([A-Za-z_:]+)', err)
        k = 'stack-overflow:' + ('rapidjson' if 'rapidjson::' in err else 'pugi' if 'pugi::' in err else (fr.group(1)[:60] if fr else '?'))
    elif k == 'crash':
        k = death
    return 'died/%s/%s' % (arch, k)


def judge_event(ck, e, arch, typ, doc_len, line, label, rng):
    wit = {'driver': 'drv_doc', 'variant': 'asan', 'case': line[:400000], 'label': label}
    if 'error' in e:
        ck.harness_error(e['error'])
        return
    if e.get('out') == 'died':
        if e.get('kind') == 'wallclock':
            ck.inconc('wall-clock watchdog fired', wit)
            return
        ck.violation(death_key(arch, e), dict(wit, stderr=e.get('stderr', '')[:2500], death=e.get('death')), 'child died (%s) loading a %s document (%s) into %s' % (e.get('death'), arch, label, typ))
        return
    if e.get('out') == 'exc' and e.get('exc') == 'non-std':
        ck.violation('non-std-exception/%s/%s' % (arch, typ), wit, 'exception not derived from std::exception')
        return
    a = e.get('alloc')
    if a:
        if a['largest'] > ALLOC_SINGLE + 4096 * doc_len or a['peak'] > ALLOC_PEAK + 4096 * doc_len:
            ck.violation('alloc/%s/%s' % (arch, 'single' if a['largest'] > ALLOC_SINGLE + 4096 * doc_len else 'peak'), dict(wit, alloc=a),
                         '%d byte document: largest single request %d bytes, peak %d bytes' % (doc_len, a['largest'], a['peak']))
            return
    if e.get('cpu_ms', 0) > 10000:
        ck.count('slow_cases_over_10s_cpu')
    key = e.get('out') + (':' + e.get('code', e.get('exc', '')) if e.get('out') != 'ok' else '')
    ck.cov.setdefault('outcomes', {})
    ck.cov['outcomes'][arch + '/' + key] = ck.cov['outcomes'].get(arch + '/' + key, 0) + 1


def run(tier):
    ck = core.Check(PID, tier, 'exploration',
                    'process-level monitor (fork per case: exit status, terminate trap, CPU budget by RLIMIT_CPU, allocation meter, ASan+UBSan) over '
                    '(1) structure-aware mutations of valid documents of the four archives (bit flips, truncation, length/count rewrites, type bytes, '
                    'number extremes, duplicated/deleted ranges, nesting amplification, splicing, re-encoding to UTF-16/32 with cropped tails, invalid '
                    'UTF-8), (2) random bytes biased to the format alphabet, (3) deep nesting, loaded into scalar / class / container / map / chrono / '
                    'dynamic-tree targets under the four policy combinations from memory and stream kinds; (4) every string converter '
                    '(numbers, bool, enum, time_point, duration, time_t, tm, UTF transcoding) on arbitrary and grammar-mutated strings in 8/16/32-bit '
                    'code units. distinct non-trivial = distinct (archive, target, policies, source kind, document) cases',
                    ['allocation rule: single request <= 64 MiB + 4096 x input, peak <= 256 MiB + 4096 x input',
                     'RapidJSON / pugixml allocate with malloc (covered by ASan max_allocation_size_mb=3072, not by the meter)'])
    exe = D.build_doc('asan')
    rng = random.Random(core.mix(ck.seed, 'c02'))
    q = tier == 'quick'
    # valid corpus
    corpus_types = {'json': ['zoo', 'scalars', 'containers', 'maps', 'wrappers', 'dyn', 'v_str', 'v_f64', 'r_str', 'r_i64', 'm_i64_str', 'csvrows', 'chrono'],
                    'xml': ['zoo', 'scalars', 'containers', 'maps', 'wrappers', 'dyn', 'v_str', 'v_inner', 'csvrows', 'chrono'],
                    'csv': ['csvrows', 'csvmaps', 'csvscalars'],
                    'msgpack': ['zoo', 'scalars', 'containers', 'maps', 'wrappers', 'dyn', 'v_str', 'v_f64', 'r_str', 'r_i64', 'm_i64_str', 'm_tps_i32', 'csvrows', 'chrono', 'v_bytes', 'r_tpms']}
    lines = []
    for arch, ts in corpus_types.items():
        for t in ts:
            for j in range(6 if q else 40):
                lines.append(D.case_line('save', arch, t, 's_%s_%s_%d' % (arch, t, j), seed=rng.randrange(1, 2 ** 62), sink='mem', maxsize=3))
    by, crashes = core.run_cases(exe, lines, 'asan')
    corpus = {a: [] for a in corpus_types}
    for cid, e in by.items():
        if e.get('out') == 'ok':
            arch, t = cid.split('_')[1], '_'.join(cid.split('_')[2:-1])
            corpus[arch].append((t, bytes.fromhex(e['bytes'])))
    ck.cov['valid_corpus_documents'] = {a: len(v) for a, v in corpus.items()}
    n = {'json': 9000, 'xml': 9000, 'csv': 7000, 'msgpack': 14000} if q else {'json': 500000, 'xml': 500000, 'csv': 400000, 'msgpack': 900000}
    lines, meta = [], {}
    k = 0
    labels = {}
    for arch in corpus_types:
        targets = D.TYPES[arch]
        for j in range(n[arch]):
            r = rng.random()
            if r < 0.72 and corpus[arch]:
                t0, doc = rng.choice(corpus[arch])
                bad, label = H.mutate(doc, arch, rng)
                if rng.random() < 0.25:
                    bad, l2 = H.mutate(bad, arch, rng)
                    label += '+' + l2
            elif r < 0.93:
                t0 = None
                bad, label = H.random_doc(arch, rng)
            else:
                t0 = None
                bad, label = H.deep_doc(arch, rng.choice([64, 255, 256, 1000, 4096]), rng)
            typ = t0 if (t0 and rng.random() < 0.7) else rng.choice(targets)
            if len(bad) > 60000:
                bad = bad[:60000]
            cfg = dict(rng.choice(POLICIES))
            cfg.update(rng.choice(SRCS))
            cid = 'h%d' % k
            k += 1
            line = D.case_line('load', arch, typ, cid, doc=bad.hex(), isolate=1, meter=1, nodesc=1, cpu=20, **cfg)
            lines.append(line)
            meta[cid] = (arch, typ, len(bad), line, label)
            labels[arch + '/' + label.split('+')[0].split('-')[0]] = labels.get(arch + '/' + label.split('+')[0].split('-')[0], 0) + 1
    # directed documents found by the coverage-guided stage in earlier runs (kept as regression canaries)
    directed = [
        ('msgpack', 'm_str_i32', '8bcb23ffff7b000000ffffffffffffffffffffcbffffffffffffffffffffffffffffffffffffffcbffffffffffffffffdc00009404f9ff', 'map with NaN keys'),
        ('msgpack', 'm_str_str', '83cb7ff8000000000000a161cb7ff8000000000000a162ca7fc00000a163', 'map with NaN keys'),
        ('msgpack', 'maps', '81a36d736983cb7ff8000000000000010203', 'NaN key in a member map'),
    ]
    for arch, typ, hexdoc, label in directed:
        for cfg in ({'mis': 'skip', 'ovf': 'skip'}, {'mis': 'throw', 'ovf': 'throw'}):
            for srcd in ({'src': 'mem'}, {'src': 'sstream'}, {'src': 'slow', 'step': 1}):
                cid = 'h%d' % k
                k += 1
                line = D.case_line('load', arch, typ, cid, doc=hexdoc, isolate=1, meter=1, nodesc=1, cpu=20, **cfg, **srcd)
                lines.append(line)
                meta[cid] = (arch, typ, len(hexdoc) // 2, line, 'directed:' + label)
    by, crashes = core.run_cases(exe, lines, 'asan')
    for ln, key, err, rc in crashes:
        ck.harness_error('driver itself died (isolation failed?): %s %s' % (key, ln[:200]))
    hangs = []
    for cid, e in by.items():
        arch, typ, dl, line, label = meta[cid]
        ck.case((arch, typ, line[-200:], dl), nontrivial=True)
        if e.get('out') == 'died' and e.get('death') == 'hang':
            hangs.append(cid)
            continue
        judge_event(ck, e, arch, typ, dl, line, label, rng)
    # a case that exhausted its CPU budget is re-run once alone before it is called a hang
    if hangs:
        by2, _ = core.run_cases(exe, [meta[c][3] for c in hangs], 'asan', workers=4)
        for cid in hangs:
            arch, typ, dl, line, label = meta[cid]
            e2 = by2.get(cid)
            if e2 is not None and e2.get('out') == 'died' and e2.get('death') == 'hang':
                judge_event(ck, e2, arch, typ, dl, line, label, rng)
            else:
                ck.inconc('CPU budget exhausted once but not on re-run', {'case': line[:2000]})
    ck.cov['mutation_families'] = labels
    ck.sample({'case': 'msgpack DD FF FF FF FF into std::vector<int>', 'monitor': 'exit status + allocation meter', 'expected': 'exception, largest request <= 64 MiB'})
    ck.sample({'case': 'msgpack 81 (map header without content) into a class', 'expected': 'exception (no std::terminate)'})

    # converters
    cexe = C.build_conv('asan')
    nconv = 12000 if q else 1500000
    lines = ['op=tostrx id=x0']
    seeds = ['0', '-1', '12345', '1.5e300', ' \t42', 'true', 'FALSE', 'Apple', 'kiwi', '2024-02-29T23:59:59.999999999Z', '-0001-01-01T00:00:00Z', '+12345-12-31T23:59:59Z', 'P1W2DT3H4M5.5S', '-PT0.000000001S',
             'PT18446744073709551615S', '9223372036854775808', '1e400', 'nan', 'inf', '0x1p3', '']
    for j in range(nconv):
        w = rng.choice([1, 1, 2, 4])
        r = rng.random()
        if r < 0.5:
            s = rng.choice(seeds)
            # mutate
            for _ in range(rng.randrange(0, 4)):
                p = rng.randrange(len(s) + 1)
                s = s[:p] + rng.choice(['', '0', '9', '-', '+', '.', 'e', 'T', 'Z', ':', 'P', ' ', '\x00', 'é', '\U0001F600', '￿', '١', 'W', '99999999999999999999']) + s[p + rng.randrange(0, 2):]
            raw = s.encode({1: 'utf-8', 2: 'utf-16-le', 4: 'utf-32-le'}[w], 'surrogatepass')
        elif r < 0.75:
            cps = [rng.choice([rng.randrange(0x80), rng.randrange(0x110000), 0xD800, 0xDFFF, 0xFFFF, 0x10FFFF, 0x30 + rng.randrange(10)]) for _ in range(rng.randrange(0, 12))]
            if w == 1:
                raw = bytes(rng.randrange(256) for _ in range(rng.randrange(0, 16)))
            elif w == 2:
                raw = b''.join((c & 0xFFFF).to_bytes(2, 'little') for c in cps)
            else:
                raw = b''.join(rng.choice([c, c | 0x80000000, 0xFFFFFFFF, 0x110000]).to_bytes(4, 'little') for c in cps)
        else:
            raw = bytes(rng.randrange(256) for _ in range(rng.randrange(0, 40) * w))
        lines.append('op=convfuzz id=v%d w=%d s=%s' % (j, w, raw.hex()))
    by, crashes = core.run_cases(cexe, lines, 'asan')
    for ln, key, err, rc in crashes:
        ck.violation('converter/died/%s' % key, {'driver': 'drv_conv', 'variant': 'asan', 'case': ln, 'stderr': err[-2000:]}, 'converter crashed: ' + key)
    oc = {}
    for cid, e in by.items():
        ck.case(('conv', cid), nontrivial=True)
        if 'outcomes' in e:
            for kk, vv in e['outcomes'].items():
                oc[kk] = oc.get(kk, 0) + vv
            if e['outcomes'].get('NON-STD'):
                ck.violation('converter/non-std-exception', {'driver': 'drv_conv', 'variant': 'asan', 'case': [l for l in lines if ('id=' + cid + ' ') in l][0]}, 'non-std exception from a converter')
        for f in e.get('fails', []):
            ck.violation('converter/' + f['key'], {'driver': 'drv_conv', 'variant': 'asan', 'case': 'op=tostrx id=x0', 'detail': f}, f['what'])
    ck.cov['converter_outcomes'] = oc
    if not q:
        fuzz_stage(ck, corpus, rng)
    return ck.finish(min_nontrivial=5000)


def fuzz_stage(ck, corpus, rng, total_time=None, jobs=12):
    """Thorough tier: coverage-guided libFuzzer target (clang ASan+UBSan) seeded with the valid corpus; artifacts are re-run one by one."""
    import glob
    import os
    import re
    import shutil
    import subprocess
    from vlib import build
    total_time = total_time or int(os.environ.get('VERIF_FUZZ_SECONDS', '1200'))
    exe = build.build('fuzz_load', 'fuzz', ['fuzz_load.cpp'])
    work = os.path.join(build.BUILD, 'fuzz-work-%d' % ck.seed)
    if not os.environ.get("VERIF_KEEP_FUZZ"):
        shutil.rmtree(work, ignore_errors=True)
    os.makedirs(os.path.join(work, 'corpus'))
    os.makedirs(os.path.join(work, 'artifacts'))
    sel = {'json': 0, 'xml': 8, 'msgpack': 16, 'csv': 24}
    nseed = 0
    for arch, docs in corpus.items():
        for t, doc in docs[:200]:
            with open(os.path.join(work, 'corpus', 'seed%d' % nseed), 'wb') as f:
                f.write(bytes([sel[arch] + rng.randrange(8), rng.randrange(32)]) + doc[:4000])
            nseed += 1
    env = core.sanitizer_env('asan', {'ASAN_OPTIONS': 'abort_on_error=0:detect_leaks=0:allocator_may_return_null=0:max_allocation_size_mb=2048:quarantine_size_mb=8:handle_abort=1'})
    cmd = [exe, os.path.join(work, 'corpus'), '-jobs=%d' % jobs, '-workers=%d' % jobs, '-max_total_time=%d' % total_time, '-timeout=25', '-rss_limit_mb=4096', '-malloc_limit_mb=1024',
           '-max_len=6000', '-print_final_stats=1', '-artifact_prefix=' + os.path.join(work, 'artifacts') + '/', '-seed=%d' % (ck.seed & 0x7fffffff)]
    try:
        subprocess.run(cmd, cwd=work, env=env, stdout=subprocess.DEVNULL, stderr=subprocess.DEVNULL, timeout=total_time + 600)
    except subprocess.TimeoutExpired:
        ck.inconc('libFuzzer wall-clock watchdog', {'cmd': ' '.join(cmd)})
    execs = 0
    cov_edges = 0
    for lg in glob.glob(os.path.join(work, 'fuzz-*.log')):
        txt = open(lg, errors='replace').read()
        m = re.findall(r'stat::number_of_executed_units:\s*(\d+)', txt)
        if m:
            execs += int(m[-1])
        m = re.findall(r' cov: (\d+) ', txt)
        if m:
            cov_edges = max(cov_edges, int(m[-1]))
    arts = sorted(glob.glob(os.path.join(work, 'artifacts', '*')))
    ck.cov['fuzz'] = {'seconds': total_time, 'jobs': jobs, 'executions': execs, 'coverage_edges': cov_edges, 'seed_inputs': nseed, 'artifacts': len(arts)}
    if execs < 1000:
        ck.harness_error('libFuzzer executed only %d inputs' % execs)
    for a in arts[:200]:
        data = open(a, 'rb').read()
        for attempt in range(2):
            try:
                p = subprocess.run([exe, a, '-timeout=60', '-rss_limit_mb=4096', '-malloc_limit_mb=1024'], env=env, stdout=subprocess.PIPE, stderr=subprocess.PIPE, timeout=400)
                err = p.stderr.decode('utf-8', 'replace')
                rc = p.returncode
            except subprocess.TimeoutExpired:
                err, rc = 'wall-clock timeout', -1
            if rc == 0:
                break
        if rc == 0:
            ck.inconc('libFuzzer artifact not reproducible', {'artifact': os.path.basename(a), 'input': data[:2000].hex()})
            continue
        kind = os.path.basename(a).split('-')[0]
        summ = core.summarize_sanitizer(err) if hasattr(core, 'summarize_sanitizer') else ''
        key = 'fuzz/%s/%s' % (kind, (summ or 'rc=%s' % rc)[:90])
        ck.violation(key, {'driver': 'fuzz_load', 'variant': 'fuzz', 'input': data[:200000].hex(), 'stderr': err[-3000:]}, 'libFuzzer %s artifact reproduces: %s' % (kind, (summ or '')[:200]))
    ck.evaluations += execs
    if not os.environ.get("VERIF_KEEP_FUZZ"):
        shutil.rmtree(work, ignore_errors=True)


def replay(w):
    wit = w['witness']
    drv = wit.get('driver', 'drv_doc')
    exe = D.build_doc('asan') if drv == 'drv_doc' else C.build_conv('asan')
    ev, err, rc, bad = core.run_driver(exe, [wit['case']], 'asan')
    print(ev, err[-2000:])
    return 0
