"""Structure-aware mutation of valid documents and raw hostile inputs for the loaders (C02, C10, C20)."""
import random

MP_TYPE_BYTES = [0x00, 0x7f, 0x80, 0x8f, 0x90, 0x9f, 0xa0, 0xbf, 0xc0, 0xc1, 0xc2, 0xc3, 0xc4, 0xc5, 0xc6, 0xc7, 0xc8, 0xc9, 0xca, 0xcb, 0xcc, 0xcd, 0xce, 0xcf,
                 0xd0, 0xd1, 0xd2, 0xd3, 0xd4, 0xd5, 0xd6, 0xd7, 0xd8, 0xd9, 0xda, 0xdb, 0xdc, 0xdd, 0xde, 0xdf, 0xe0, 0xff]
LEN_VALUES = [0, 1, 2, 0x7f, 0x80, 0xff, 0x100, 0x7fff, 0x8000, 0xffff, 0x10000, 0x7fffffff, 0x80000000, 0xffffffff]

ALPHABET = {
    'json': b'{}[]:,"\\ntrufalse0123456789.-+eE \n\t\xc3\xa9\xf0\x9f\x98\x80u',
    'xml': b'<>/="\'&;!?-[]CDATA xmlversion#0123456789abc \n\xc3\xa9',
    'csv': b',;"\r\n \t|abc0123456789.-\xc3\xa9',
    'msgpack': bytes(MP_TYPE_BYTES),
}


def mutate(doc, arch, rng):
    """One hostile variant of a valid document. Returns (bytes, label)."""
    if not doc:
        return bytes(rng.randrange(256) for _ in range(rng.randrange(1, 8))), 'random-from-empty'
    k = rng.randrange(12)
    n = len(doc)
    if arch == 'msgpack' and rng.random() < 0.08:
        # replace a short string (usually a map key) by an item of another kind: non-finite floats, zeros, nil, bool, bin, containers, extreme integers
        cands = [i for i, b in enumerate(doc) if 0xa1 <= b <= 0xaf and i + 1 + (b & 0x1f) <= n]
        if cands:
            p = rng.choice(cands)
            alt = rng.choice([b'\xcb\x7f\xf8\x00\x00\x00\x00\x00\x00', b'\xca\x7f\xc0\x00\x00', b'\xcb\x7f\xf0\x00\x00\x00\x00\x00\x00', b'\xcb\x80\x00\x00\x00\x00\x00\x00\x00', b'\xca\x00\x00\x00\x00',
                              b'\xc0', b'\xc3', b'\xc4\x01\x00', b'\x91\x01', b'\x80', b'\xd6\xff\x00\x00\x00\x00', b'\xcf\xff\xff\xff\xff\xff\xff\xff\xff', b'\xd3\x80\x00\x00\x00\x00\x00\x00\x00', b'\xa0'])
            return doc[:p] + alt + doc[p + 1 + (doc[p] & 0x1f):], 'key-kind-replace'
    if arch in ('json', 'xml') and rng.random() < 0.08:
        # structure-aware: replace a whole bracketed subtree (array / object / element content) by a scalar, or a scalar by a subtree
        if arch == 'json':
            opens = [i for i, b in enumerate(doc) if b in b'[{']
            if opens:
                p = rng.choice(opens)
                close = {0x5b: 0x5d, 0x7b: 0x7d}[doc[p]]
                depth, q, in_str = 0, p, False
                while q < n:
                    b = doc[q]
                    if in_str:
                        if b == 0x5c:
                            q += 1
                        elif b == 0x22:
                            in_str = False
                    elif b == 0x22:
                        in_str = True
                    elif b == doc[p]:
                        depth += 1
                    elif b == close:
                        depth -= 1
                        if depth == 0:
                            break
                    q += 1
                if q < n and p > 0:
                    return doc[:p] + rng.choice([b'7', b'"abcd"', b'null', b'true', b'1.5', b'-1']) + doc[q + 1:], 'subtree-to-scalar'
        else:
            import re as _re
            m = list(_re.finditer(rb'<([A-Za-z_][^ >/]*)>', doc))
            if m:
                mm = rng.choice(m)
                endtag = b'</' + mm.group(1) + b'>'
                e = doc.find(endtag, mm.end())
                if e > 0:
                    return doc[:mm.end()] + rng.choice([b'7', b'abcd', b'', b'<value>1</value>', b'<x><y>2</y></x>']) + doc[e:], 'subtree-to-scalar'
    if k == 0:
        return doc[:rng.randrange(n)], 'truncate'
    if k == 1:
        p = rng.randrange(n)
        return doc[:p] + bytes([doc[p] ^ (1 << rng.randrange(8))]) + doc[p + 1:], 'bitflip'
    if k == 2:
        p = rng.randrange(n)
        nb = rng.choice(MP_TYPE_BYTES) if arch == 'msgpack' else rng.choice(ALPHABET[arch])
        return doc[:p] + bytes([nb]) + doc[p + 1:], 'byte-replace'
    if k == 3 and arch == 'msgpack':
        # rewrite a length / count field: find a byte that looks like a sized header and overwrite the following size bytes
        cands = [i for i, b in enumerate(doc) if b in (0xc4, 0xc5, 0xc6, 0xc7, 0xc8, 0xc9, 0xd9, 0xda, 0xdb, 0xdc, 0xdd, 0xde, 0xdf)]
        if cands:
            p = rng.choice(cands)
            size = {0xc4: 1, 0xc5: 2, 0xc6: 4, 0xc7: 1, 0xc8: 2, 0xc9: 4, 0xd9: 1, 0xda: 2, 0xdb: 4, 0xdc: 2, 0xdd: 4, 0xde: 2, 0xdf: 4}[doc[p]]
            v = rng.choice(LEN_VALUES) & ((1 << (8 * size)) - 1)
            return doc[:p + 1] + v.to_bytes(size, 'big') + doc[p + 1 + size:], 'length-rewrite'
        return doc[:1] + b'\xdd\xff\xff\xff\xff' + doc[1:], 'length-insert'
    if k == 3:
        # numbers: replace a digit run by an extreme
        import re
        m = list(re.finditer(rb'-?[0-9][0-9.eE+-]*', doc))
        if m:
            mm = rng.choice(m)
            rep = rng.choice([b'99999999999999999999999999', b'-99999999999999999999', b'1e999', b'-1e-999', b'0.' + b'0' * 400 + b'1', b'1' * 400, b'-0', b'1e', b'.', b'0x10', b'NaN', b'Infinity'])
            return doc[:mm.start()] + rep + doc[mm.end():], 'number-extreme'
    if k == 4:
        p, q = sorted((rng.randrange(n), rng.randrange(n)))
        return doc[:p] + doc[q:], 'delete-range'
    if k == 5:
        p, q = sorted((rng.randrange(n), rng.randrange(n)))
        return doc[:q] + doc[p:q] * rng.choice([1, 2, 8]) + doc[q:], 'duplicate-range'
    if k == 6:
        p = rng.randrange(n)
        ins = bytes(rng.choice(ALPHABET[arch]) for _ in range(rng.randrange(1, 6)))
        return doc[:p] + ins + doc[p:], 'insert-alphabet'
    if k == 7:
        p = rng.randrange(n)
        if arch == 'msgpack':
            amp = bytes([rng.choice([0x91, 0x81, 0xdc, 0xde])]) * rng.choice([16, 256, 2000])
        elif arch == 'json':
            amp = rng.choice([b'[', b'{"a":', b'[{"v":']) * rng.choice([16, 200])
        elif arch == 'xml':
            amp = b'<a>' * rng.choice([16, 256, 2000])
        else:
            amp = b'"' * rng.choice([1, 3, 200])
        return doc[:p] + amp + doc[p:], 'nesting-amplify'
    if k == 8:
        return doc + doc[rng.randrange(n):], 'splice-tail'
    if k == 9 and arch in ('json', 'xml', 'csv'):
        enc = rng.choice(['utf-16-le', 'utf-16-be', 'utf-32-le', 'utf-32-be'])
        try:
            t = doc.decode('utf-8').encode(enc)
        except UnicodeDecodeError:
            t = doc
        bom = {'utf-16-le': b'\xff\xfe', 'utf-16-be': b'\xfe\xff', 'utf-32-le': b'\xff\xfe\x00\x00', 'utf-32-be': b'\x00\x00\xfe\xff'}[enc] if rng.random() < 0.5 else b''
        t = bom + t
        cut = rng.choice([0, 1, 2, 3])
        return (t[:-cut] if cut else t), 'reencode-' + enc + ('-cropped' if cut else '')
    if k == 10:
        p = rng.randrange(n)
        return doc[:p] + bytes(rng.randrange(256) for _ in range(rng.randrange(1, 9))) + doc[p + rng.randrange(0, 4):], 'random-bytes'
    # invalid UTF-8 inside text
    p = rng.randrange(n)
    return doc[:p] + rng.choice([b'\xc0\x80', b'\xed\xa0\x80', b'\xf4\x90\x80\x80', b'\xff', b'\xe2\x82', b'\x00']) + doc[p:], 'bad-utf8'


def random_doc(arch, rng):
    n = rng.choice([0, 1, 2, 3, 5, 8, 16, 40, 120, 512])
    a = ALPHABET[arch]
    if rng.random() < 0.3:
        return bytes(rng.randrange(256) for _ in range(n)), 'random'
    return bytes(rng.choice(a) for _ in range(n)), 'random-alphabet'


def deep_doc(arch, depth, rng):
    if arch == 'msgpack':
        kind = rng.choice([0x91, 0x81])
        if kind == 0x91:
            return bytes([0x91]) * depth + b'\x01', 'deep-array-%d' % depth
        return b'\x81\xa1v' * depth + b'\x01', 'deep-map-%d' % depth
    if arch == 'json':
        if rng.random() < 0.5:
            return b'[' * depth + b'1' + b']' * depth, 'deep-array-%d' % depth
        return b'{"v":' * depth + b'1' + b'}' * depth, 'deep-object-%d' % depth
    if arch == 'xml':
        return b'<?xml version="1.0"?>' + b'<v>' * depth + b'1' + b'</v>' * depth, 'deep-elements-%d' % depth
    return b'a,b\r\n' + b'"' * depth + b'x,1\r\n', 'deep-quotes-%d' % depth
