"""C04, document-carried part: numeric / boolean values of documents loaded into arithmetic targets under the 2x2 policy matrix.

Every case is an object with members of declared target types; one member (or one array element / attribute) may be "hot": a value the
target cannot hold, of another kind, fractional, at a range edge...  The set of acceptable outcomes is computed from the exact value:
  OK(v)  loaded with exactly v (floats: nearest) | NL  reported not loaded, target untouched | EX(code)  SerializationException with that code
and anything else - a wrapped, truncated, sign-changed or otherwise different stored value, a policy that is not honoured - is a violation.
"""
import random
import struct
from fractions import Fraction

from vlib import core
from checks import c03
from checks import fields as F
from oracles import render as R
from oracles import shapes as S

INT = F.INT_RANGES
TARGETS = list(INT) + ['f32', 'f64', 'bool']
FLT_MAX = struct.unpack('>f', bytes.fromhex('7f7fffff'))[0]
F32_HALF_ULP_TOP = 2.0 ** 103          # half of the last ulp of FLT_MAX


def f32_nearest(x):
    try:
        return struct.unpack('>f', struct.pack('>f', x))[0]
    except OverflowError:
        return None


def hot_sources(rng, t, arch):
    """Candidate sources around the edges of target type t -> (item, kind, exact value)"""
    out = []
    if t in INT:
        lo, hi = INT[t]
        for n in (lo, hi, lo - 1, hi + 1, hi + 2, lo - 2, 2 * hi + 1, -1, 0, 2 ** 63 - 1, -2 ** 63, 2 ** 63, 2 ** 64 - 1, 256, 65536, 2 ** 32, -2 ** 31 - 1, S.rand_int(rng, -2 ** 63, 2 ** 64 - 1)):
            if -2 ** 63 <= n < 2 ** 64:
                out.append((('i', n), 'int', n))
        for x in (float(hi), float(lo), hi + 1.0, lo - 1.0, 0.5, -0.5, 1.5, hi + 0.5, 2.0 ** 63, -2.0 ** 63, 2.0 ** 64, 1e19, 1e20, -1e20, 3.0, -7.0, 1e300):
            out.append((('f', struct.pack('>d', x).hex()), 'float', x))
        out.append((('b', True), 'bool', True))
        out.append((('b', False), 'bool', False))
    elif t in ('f32', 'f64'):
        for n in (0, 1, -1, 2 ** 24, 2 ** 24 + 1, 2 ** 53, 2 ** 53 + 1, 2 ** 63 - 1, -2 ** 63, 2 ** 64 - 1, 123456789, S.rand_int(rng, -2 ** 63, 2 ** 64 - 1)):
            out.append((('i', n), 'int', n))
        for x in (0.0, -0.0, 0.1, 1.5, FLT_MAX, -FLT_MAX, 3.5e38, -3.5e38, 1e39, 1e300, -1e300, 1e-46, 1e-39, 1.17549435e-38, 16777217.0, 0.30000000000000004):
            out.append((('f', struct.pack('>d', x).hex()), 'float', x))
        out.append((('b', True), 'bool', True))
    else:
        for n in (0, 1, 2, -1, 255, 2 ** 63):
            out.append((('i', n), 'int', n))
        for x in (0.0, 1.0, 0.5, 2.0):
            out.append((('f', struct.pack('>d', x).hex()), 'float', x))
    if arch == 'msgpack':
        more = []
        for it, kind, x in out:
            if kind == 'float' and f32_nearest(x) == x:
                more.append((('f32', struct.pack('>f', x).hex()), 'float', x))
        out += more
        if t in ('f32', 'f64') or rng.random() < 0.3:
            out.append((('f', '7ff0000000000000'), 'float', float('inf')))
            out.append((('f32', 'ff800000'), 'float', float('-inf')))
            out.append((('f', '7ff8000000000000'), 'float', float('nan')))
    if arch == 'json':
        # RapidJSON converts 17-digit decimals inexactly (recorded finding): keep doubles whose shortest form has few digits
        out = [(it, k, x) for it, k, x in out if k != 'float' or len(repr(x).replace('.', '').replace('-', '').split('e')[0].lstrip('0')) <= 15]
    return out


def acceptable(kind, x, t, mis, ovf, arch):
    """-> (set of acceptable outcomes, description).  outcomes: ('ok', desc) | 'nl' | ('ex', code)"""
    OVF = ('ex', 'Overflow') if ovf == 'throw' else 'nl'
    MIS = ('ex', 'Mismatched types') if mis == 'throw' else 'nl'
    text = arch in ('xml', 'csv')
    acc = set()

    def ok_int(n):
        acc.add(('ok', n))

    def ok_float(v, width):
        if v != v:
            acc.add(('ok', 'nan'))
        else:
            acc.add(('ok', struct.pack('>f' if width == 32 else '>d', v).hex()))
    if t in INT:
        lo, hi = INT[t]
        if kind == 'int':
            if lo <= x <= hi:
                ok_int(x)
            else:
                acc.add(OVF)
                if text and x < 0 and lo == 0:
                    acc.add(MIS)                     # "-1" as text for an unsigned target: class unpinned (C16)
        elif kind == 'float':
            if x != x or x in (float('inf'), float('-inf')):
                acc.update([MIS, OVF])
            elif x == int(x):
                acc.add(MIS)
                if lo <= int(x) <= hi:
                    ok_int(int(x))
                else:
                    acc.add(OVF)
            else:
                acc.add(MIS)
                if not (lo <= x <= hi):
                    acc.add(OVF)
        else:
            acc.add(MIS)
            ok_int(int(x))
    elif t in ('f32', 'f64'):
        width = 32 if t == 'f32' else 64
        if kind == 'int':
            if arch == 'msgpack':
                acc.add(MIS)                         # integer and float are different kinds of the MessagePack type system
            v = float(x) if width == 64 else f32_nearest(float(x))
            exact = Fraction(v) == x
            ok_float(v, width)
            if width == 32 and not exact:
                # double rounding through double is also "nearest" within one step: accept both neighbours of the exact value
                lo_n = struct.unpack('>f', struct.pack('>I', struct.unpack('>I', struct.pack('>f', v))[0] - 1))[0] if v > 0 else v
                for cand in (v,):
                    ok_float(cand, 32)
            if not exact:
                acc.add(OVF)                         # an inexact integer may also be reported as not representable
        elif kind == 'float':
            if x != x or x in (float('inf'), float('-inf')):
                ok_float(x, width)
            elif width == 64:
                ok_float(x, 64)
                if arch == 'json' and x != 0:
                    # RapidJSON 1.1.0 converts decimals outside its exact fast path 1-3 ulp off (recorded finding json/double-parsed-inexactly)
                    bits = struct.unpack('>Q', struct.pack('>d', x))[0]
                    for d in (-3, -2, -1, 1, 2, 3):
                        acc.add(('ok', '%016x' % (bits + d)))
            else:
                if abs(x) > FLT_MAX + F32_HALF_ULP_TOP:
                    acc.add(OVF)
                elif abs(x) > FLT_MAX:
                    acc.add(OVF)
                    ok_float(FLT_MAX if x > 0 else -FLT_MAX, 32)
                else:
                    v = f32_nearest(x)
                    ok_float(v, 32)
                    if v == 0 and x != 0:
                        acc.add(OVF)                 # underflow may be reported
        else:
            acc.add(MIS)
            ok_float(1.0 if x else 0.0, width)
    else:
        if kind == 'bool':
            acc.add(('ok', bool(x)))
        elif kind == 'int':
            acc.add(MIS)
            if x in (0, 1):
                acc.add(('ok', bool(x)))
            else:
                acc.add(OVF)
        else:
            acc.update([MIS, OVF])
            if x in (0.0, 1.0):
                acc.add(('ok', bool(x)))
    return acc


def outcome_of(rec, t):
    if not rec.get('ok'):
        return 'nl' if rec.get('v') == F.SENT[t] else ('nl-target-changed', str(rec.get('v')))
    v = rec.get('v')
    if t in ('f32', 'f64'):
        return ('ok', v[t])
    return ('ok', v)


def run_part(ck, tier):
    """Called from checks.c04: returns a summary dict for coverage.document_part"""
    R.FLOAT_ALT = False
    q = tier == 'quick'
    rng = random.Random(core.mix(ck.seed, 'c04docs'))
    n = 12000 if q else 600000
    stats = {'cases': 0, 'hot_values': 0, 'outcomes': {}}
    for variant, share in (('asan', 1.0),):
        exe = c03.build_req(variant)
        lines, meta = [], {}
        for i in range(n):
            arch = rng.choice(['json', 'xml', 'csv', 'msgpack', 'msgpack'])
            mis, ovf = rng.choice(['skip', 'throw']), rng.choice(['skip', 'throw'])
            nf = rng.randrange(1, 6)
            hot_at = rng.randrange(nf)
            members, ops, plan = [], [], []
            used = set()
            for j in range(nf):
                key = F.new_key(rng, used)
                t = rng.choice(TARGETS)
                if j == hot_at:
                    it, kind, x = rng.choice(hot_sources(rng, t, arch))
                    in_array = arch != 'csv' and t in ('i32', 'i64', 'u16', 'f32', 'f64', 'bool') and rng.random() < 0.25
                else:
                    it, d = F.conforming(t, rng, arch)
                    kind, x = ('bool', it[1]) if t == 'bool' else ('int', it[1]) if t in INT else ('float', struct.unpack('>d', bytes.fromhex(it[1]))[0])
                    in_array = False
                if in_array:
                    pre = [F.conforming(t, rng, arch) for _ in range(rng.randrange(0, 3))]
                    post = [F.conforming(t, rng, arch) for _ in range(rng.randrange(0, 3))]
                    members.append((key, ('a', [p[0] for p in pre] + [it] + [p[0] for p in post])))
                    ops.append('G:%s:v_%s' % (key.encode().hex(), t))
                    plan.append((key, t, kind, x, [p[1] for p in pre], [p[1] for p in post]))
                else:
                    members.append((key, it))
                    ops.append('G:%s:%s' % (key.encode().hex(), t))
                    plan.append((key, t, kind, x, None, None))
            doc = c03.render(arch, ('o', members), rng if rng.random() < 0.7 else None, rng.randrange(0, 20))
            src = rng.choice(['mem', 'mem', 'sstream', 'slow'])
            cid = 'n%d' % i
            line = 'op=run id=%s arch=%s doc=%s prog=%s mis=%s ovf=%s src=%s step=%d' % (cid, arch, doc.hex(), ';'.join(ops), mis, ovf, src, rng.choice([1, 7, 64, 256]))
            lines.append(line)
            meta[cid] = (arch, mis, ovf, plan, line, src)
        by, crashes = core.run_cases(exe, lines, variant)
        for ln, key, err, rc in crashes:
            ck.violation('document/crash/%s' % key, {'driver': 'drv_req', 'variant': variant, 'case': ln[:400000], 'stderr': err[-1500:]}, 'process died: ' + key)
        for cid, e in by.items():
            arch, mis, ovf, plan, line, src = meta[cid]
            if 'error' in e:
                ck.harness_error(e['error'])
                continue
            ck.case(('document', cid, arch, mis, ovf, line[-120:]), nontrivial=True)
            stats['cases'] += 1
            wit = {'driver': 'drv_req', 'variant': variant, 'case': line[:400000], 'event': {k: str(v)[:2000] for k, v in e.items()}}
            res, log = e['res'], e['log']
            stopped = False
            for j, (key, t, kind, x, pre, post) in enumerate(plan):
                pos = 'element' if pre is not None else 'member'
                acc = acceptable(kind, x, t, mis, ovf, arch)
                label = '%s/%s/%s->%s' % (arch, pos, kind, 'int' if t in INT else t)
                if j >= len(log):
                    # the load stopped here: must be an acceptable exception
                    stopped = True
                    got = ('ex', res.get('code')) if res['out'] == 'exc' else ('no-record', res['out'])
                    stats['outcomes'][str(got[1])] = stats['outcomes'].get(str(got[1]), 0) + 1
                    if got not in acc:
                        ck.violation('document/%s/%s-instead-of-%s' % (label, got[1], sorted(map(str, acc))[0][:40]), wit,
                                     '%s value %r into %s under mis=%s ovf=%s: %s; acceptable %s' % (kind, x, t, mis, ovf, got, sorted(map(str, acc))))
                    break
                rec = log[j]
                if pre is not None:
                    # the array holding the hot element
                    if not rec.get('ok') or not isinstance(rec.get('v'), list) or len(rec['v']) != len(pre) + 1 + len(post):
                        got = 'nl'
                        if rec.get('ok'):
                            got = ('array-shape', str(rec.get('v'))[:80])
                        if got != 'nl' or not (set(a for a in acc if a != 'nl' and a[0] == 'ok') == set()):
                            ck.violation('document/%s/array-not-loaded' % label, wit, 'array with %s value %r: record %s' % (kind, x, str(rec)[:200]))
                        continue
                    vals = rec['v']
                    if vals[:len(pre)] != pre or vals[len(pre) + 1:] != post:
                        ck.violation('document/%s/neighbours-disturbed' % label, wit, 'elements around %s value %r differ: %s' % (kind, x, vals))
                        continue
                    hv = vals[len(pre)]
                    prior = F.SENT['v_' + t][len(pre)] if len(pre) < len(F.SENT['v_' + t]) else F.zero_of(t)
                    oks = {a[1] for a in acc if isinstance(a, tuple) and a[0] == 'ok'}
                    hvn = hv[t] if isinstance(hv, dict) else hv
                    if hvn in oks or ('nan' in oks and hvn == 'nan'):
                        continue
                    if 'nl' in acc and hv == prior:
                        continue
                    if t == 'bool' and 'nl' in acc:
                        continue
                    ck.violation('document/%s/wrong-value' % label, wit, '%s value %r into element of vector<%s> under mis=%s ovf=%s stored %r; acceptable %s' % (kind, x, t, mis, ovf, hv, sorted(map(str, acc))))
                    continue
                got = outcome_of(rec, t)
                if j == len(plan) - 1 or True:
                    stats['outcomes'][got if isinstance(got, str) else got[0]] = stats['outcomes'].get(got if isinstance(got, str) else got[0], 0) + 1
                if got in acc:
                    continue
                if isinstance(got, tuple) and got[0] == 'ok':
                    what = 'wrong-value'
                elif got == 'nl':
                    what = 'silently-skipped'
                else:
                    what = 'target-changed-but-not-loaded'
                ck.violation('document/%s/%s' % (label, what), wit, '%s value %r into %s under mis=%s ovf=%s: %s; acceptable %s' % (kind, x, t, mis, ovf, got, sorted(map(str, acc))))
            if not stopped and res['out'] == 'exc':
                ck.violation('document/%s/exception-after-all-members/%s' % (arch, res.get('code')), wit, 'exception %s although every member had been processed' % res.get('what'))
            stats['hot_values'] += 1
    # ---- XML attributes
    lines, meta = [], {}
    AT = {'ai': 'i64', 'au8': 'u8', 'ai16': 'i16', 'au32': 'u32', 'af': 'f64', 'af32': 'f32', 'ab': 'bool'}
    exe = c03.build_req('asan')
    for i in range(n // 4):
        name = rng.choice(list(AT))
        t = AT[name]
        it, kind, x = rng.choice(hot_sources(rng, t, 'xml'))
        mis, ovf = rng.choice(['skip', 'throw']), rng.choice(['skip', 'throw'])
        text = str(it[1]).lower() if it[0] == 'b' else str(it[1]) if it[0] == 'i' else repr(struct.unpack('>d', bytes.fromhex(it[1]))[0])
        doc = '<root %s="%s"><body>z</body></root>' % (name, text)
        cid = 'x%d' % i
        lines.append('op=xattr id=%s mode=load doc=%s mis=%s ovf=%s' % (cid, doc.encode().hex(), mis, ovf))
        meta[cid] = (name, t, kind, x, mis, ovf, lines[-1], text)
    by, crashes = core.run_cases(exe, lines, 'asan')
    for ln, key, err, rc in crashes:
        ck.violation('document/xml/attribute/crash/%s' % key, {'driver': 'drv_req', 'variant': 'asan', 'case': ln[:400000], 'stderr': err[-1500:]}, 'process died: ' + key)
    for cid, e in by.items():
        name, t, kind, x, mis, ovf, line, text = meta[cid]
        ck.case(('attribute', cid, line[-100:]), nontrivial=True)
        acc = acceptable(kind, x, t, mis, ovf, 'xml')
        wit = {'driver': 'drv_req', 'variant': 'asan', 'case': line, 'event': str(e)[:1500]}
        if e.get('out') == 'exc':
            got = ('ex', e.get('code'))
        else:
            v = e[name]
            sent = {'ai': 6510615555426900570, 'au8': 90, 'ai16': 23130, 'au32': 1515870810, 'af': '40934a0000000000', 'af32': '449a5000', 'ab': True}[name]
            got = 'nl' if (v == sent and ('ok', v) not in acc) else ('ok', v)
            if e['body'] != '7a':
                ck.violation('document/xml/attribute/element-after-attribute-lost', wit, 'element following the attributes not loaded')
                continue
        if got not in acc:
            label = 'xml/attribute/%s->%s' % (kind, 'int' if t in INT else t)
            ck.violation('document/%s/%s' % (label, 'wrong-value' if isinstance(got, tuple) and got[0] == 'ok' else str(got)[:40]), wit,
                         'attribute %s="%s" into %s under mis=%s ovf=%s: %s; acceptable %s' % (name, text, t, mis, ovf, got, sorted(map(str, acc))))
    stats['attribute_cases'] = len(by)
    return stats
