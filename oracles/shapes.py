"""Shape-driven helpers: random values in the driver's describe() format, canonicalisation, and the expected MessagePack data model.

A *shape* is the type descriptor printed by the driver (op=shape); a *value* is the JSON printed by describe():
  bool -> true/false ; int -> number ; enum -> {"e":n} ; f32 -> {"f32":"hex bits"|"nan"} ; f64 ; str -> {"s":"hex of UTF-8"} ;
  obj -> {"o":{field:value}} ; seq/tuple -> [..] ; map -> {"m":[[k,v]..]} ; opt -> null|value ; tp -> {"tp":count} ; dur -> {"dur":count} ;
  dyn -> {"dyn":kind,"v":..}
"""
import json
import struct
from fractions import Fraction

UNIT = {'ns': Fraction(1, 10 ** 9), 'us': Fraction(1, 10 ** 6), 'ms': Fraction(1, 1000), 's': Fraction(1), 'min': Fraction(60), 'h': Fraction(3600), 'days': Fraction(86400)}


def int_range(sh):
    b = sh['bits']
    return (-(1 << (b - 1)), (1 << (b - 1)) - 1) if sh['signed'] else (0, (1 << b) - 1)


# ---------------------------------------------------------------- canonical form for comparison
def canon(v, sh):
    k = sh['k']
    if k == 'obj':
        d = v['o'] if isinstance(v, dict) and 'o' in v else {}
        return {'o': {name: canon(d.get(name), fs) for name, fs in sh['f'] if name in d}}
    if k == 'seq':
        items = [canon(x, sh['e']) for x in v] if isinstance(v, list) else v
        if sh.get('unordered') and isinstance(items, list):
            items = sorted(items, key=lambda x: json.dumps(x, sort_keys=True))
        return items
    if k == 'tuple':
        return [canon(x, es) for x, es in zip(v, sh['e'])] if isinstance(v, list) else v
    if k in ('map', 'multimap'):
        items = [[canon(kv[0], sh['key']), canon(kv[1], sh['val'])] for kv in v['m']]
        items = sorted(items, key=lambda x: json.dumps(x, sort_keys=True))
        return {'m': items}
    if k in ('opt',):
        return None if v is None else canon(v, sh['e'])
    if k == 'atomic':
        return canon(v, sh['e'])
    if k == 'dyn':
        return canon_dyn(v)
    return v


def canon_dyn(v):
    if not isinstance(v, dict):
        return v
    if v.get('dyn') == 6:
        return {'dyn': 6, 'v': [canon_dyn(x) for x in v['v']]}
    if v.get('dyn') == 7:
        return {'dyn': 7, 'v': {'m': sorted([[kv[0], canon_dyn(kv[1])] for kv in v['v']['m']], key=lambda x: json.dumps(x, sort_keys=True))}}
    return v


# ---------------------------------------------------------------- random values
CP_SPECIAL = [0x22, 0x5C, 0x2F, 0x27, 0x3C, 0x3E, 0x26, 0x2C, 0x3B, 0x7C, 0x09, 0x20, 0x0A, 0x0D, 0x00, 0x01, 0x1F, 0x7F, 0x80, 0x85, 0xA0, 0x7FF, 0x800,
              0xFFFD, 0xFEFF, 0xFFFE, 0xFFFF, 0xD7FF, 0xE000, 0x2028, 0x2029, 0x10000, 0x10FFFF, 0x1F600]


def is_xml_char(c):
    return c in (9, 10, 13) or 0x20 <= c <= 0xD7FF or 0xE000 <= c <= 0xFFFD or 0x10000 <= c <= 0x10FFFF


def rand_cp(rng, ctx):
    while True:
        r = rng.random()
        if r < 0.45:
            cp = rng.randrange(0x21, 0x7F)
        elif r < 0.65:
            cp = rng.choice(CP_SPECIAL)
        elif r < 0.75:
            cp = rng.randrange(0x80, 0x800)
        elif r < 0.9:
            cp = rng.randrange(0x800, 0x10000)
        else:
            cp = rng.randrange(0x10000, 0x110000)
        if 0xD800 <= cp <= 0xDFFF:
            continue
        if ctx.get('xml') and (not is_xml_char(cp) or cp == 0x0D):
            continue
        if ctx.get('nonul') and cp == 0:
            continue
        return cp


def rand_text(rng, ctx, maxlen=12):
    r = rng.random()
    n = 0 if r < 0.08 else rng.randrange(1, 7) if r < 0.7 else rng.randrange(1, maxlen + 1) if r < 0.95 else rng.randrange(30, 41)
    if ctx.get('big') and rng.random() < 0.03:
        n = rng.choice([31, 32, 33, 255, 256, 257, 300])
    if ctx.get('huge') and rng.random() < 0.01:
        n = rng.choice([65535, 65536, 65537])
        return 'x' * n
    return ''.join(chr(rand_cp(rng, ctx)) for _ in range(n))


def rand_name(rng, ctx):
    first = 'abcdefghijklmnopqrstuvwxyzABCDEFGHIJKLMNOPQRSTUVWXYZ_'
    rest = 'abcdefghijklmnopqrstuvwxyz0123456789_-.'
    if ctx.get('xml') or rng.random() < 0.5:
        s = rng.choice(first) + ''.join(rng.choice(rest) for _ in range(rng.randrange(0, 9)))
        if rng.random() < 0.15:
            s += chr(rng.choice([0xE9, 0x416, 0x4E2D, 0x10400]))
        return s
    c2 = dict(ctx)
    c2['nonul'] = True
    return rand_text(rng, c2, 10) or 'k'


def rand_int(rng, lo, hi):
    r = rng.random()
    if r < 0.2:
        v = rng.choice([0, 1, -1, 2, -2])
    elif r < 0.4:
        v = rng.choice([lo, hi]) + rng.choice([0, 1, -1, 2, -2])
    elif r < 0.65:
        p = 1 << rng.randrange(1, 64)
        v = rng.choice([p, -p]) + rng.choice([-1, 0, 1])
    else:
        v = rng.randrange(lo, hi + 1) >> rng.randrange(0, 64) if rng.random() < 0.5 else rng.randrange(lo, hi + 1)
    return min(max(v, lo), hi)


F32_SPECIAL = [0x00000000, 0x80000000, 0x3f800000, 0xbf800000, 0x3f000000, 0x3dcccccd, 0x00800000, 0x7f7fffff, 0xff7fffff, 0x00000001, 0x34000000, 0x501502f9, 0x47f12065, 0x3eaaaaab, 0x4b800001, 0x33d6bf95]
F64_SPECIAL = [0, 1 << 63, 0x3ff0000000000000, 0xbff0000000000000, 0x3fe0000000000000, 0x3fb999999999999a, 0x0010000000000000, 0x7fefffffffffffff, 0xffefffffffffffff, 1, 0x3cb0000000000000,
               0x4202a05f20000000, 0x40fe240c9fbe76c9, 0x3fd5555555555555, 0x4170000010000000, 0x3e7ad7f29abcaf48]


def rand_f32(rng, ctx):
    r = rng.random()
    if r < 0.1 and ctx.get('nonfinite'):
        return rng.choice(['7f800000', 'ff800000', 'nan'])
    if r < 0.35:
        return '%08x' % rng.choice(F32_SPECIAL)
    while True:
        b = rng.getrandbits(32)
        if (b & 0x7f800000) != 0x7f800000:
            return '%08x' % b


def rand_f64(rng, ctx):
    r = rng.random()
    if r < 0.1 and ctx.get('nonfinite'):
        return rng.choice(['7ff0000000000000', 'fff0000000000000', 'nan'])
    if r < 0.3:
        return '%016x' % rng.choice(F64_SPECIAL)
    if r < 0.5:
        d = (rng.getrandbits(63) >> rng.randrange(64)) / 10.0 ** rng.randrange(8)
        return struct.pack('>d', d).hex()
    while True:
        b = rng.getrandbits(64)
        if (b & 0x7ff0000000000000) != 0x7ff0000000000000:
            return '%016x' % b


def rand_size(rng, ctx):
    r = rng.random()
    if r < 0.15:
        return 0
    if ctx.get('big') and r > 0.96:
        return rng.choice([15, 16, 17, 31, 32, 33])
    return rng.randrange(1, ctx.get('maxsize', 4) + 1)


def rand_chrono_count(rng, sh):
    lo, hi = int_range(sh)
    v = rand_int(rng, lo, hi)
    u = UNIT[sh['unit']]
    if u > 1:
        lim = (1 << 62) // int(u)
        if abs(v) > lim:
            v = v % lim
    return v


def rand_value(sh, rng, ctx):
    k = sh['k']
    if k == 'bool':
        return rng.random() < 0.5
    if k == 'int':
        if sh.get('enumbin'):
            return rng.choice([0, 1, 10, -5, 30000])
        return rand_int(rng, *int_range(sh))
    if k == 'enum':
        return {'e': rng.choice(list(sh['names'].values()))}
    if k == 'f32':
        return {'f32': rand_f32(rng, ctx)}
    if k == 'f64':
        return {'f64': rand_f64(rng, ctx)}
    if k == 'str':
        return {'s': rand_text(rng, ctx).encode('utf-8').hex()}
    if k == 'obj':
        return {'o': {name: rand_value(fs, rng, ctx) for name, fs in sh['f']}}
    if k == 'seq':
        n = sh['fixed'] if 'fixed' in sh else rand_size(rng, ctx)
        items = [rand_value(sh['e'], rng, ctx) for _ in range(n)]
        if sh['c'] in ('set', 'unordered_set'):
            seen, out = set(), []
            for it in items:
                key = json.dumps(it, sort_keys=True)
                if key not in seen:
                    seen.add(key)
                    out.append(it)
            items = out
        return items
    if k == 'tuple':
        return [rand_value(es, rng, ctx) for es in sh['e']]
    if k in ('map', 'multimap'):
        n = rand_size(rng, ctx)
        items, seen = [], set()
        for _ in range(n):
            key = rand_key(sh['key'], rng, ctx)
            kk = json.dumps(key, sort_keys=True)
            if kk in seen and (k == 'map' or not ctx.get('dupkeys')):
                continue
            seen.add(kk)
            items.append([key, rand_value(sh['val'], rng, ctx)])
        return {'m': items}
    if k == 'opt':
        if rng.random() < 0.25 and not (ctx.get('xml') and sh['e']['k'] in ('obj', 'seq', 'map', 'multimap', 'tuple', 'dyn')):
            return None
        v = rand_value(sh['e'], rng, ctx)
        if ctx.get('empty_is_null') and sh['e']['k'] == 'str' and v == {'s': ''}:
            v = {'s': '78'}
        return v
    if k == 'atomic':
        return rand_value(sh['e'], rng, ctx)
    if k == 'tp':
        if sh.get('ctime'):
            return {'tp': rng.randrange(-9000000000, 9000000000)}
        return {'tp': rand_chrono_count(rng, sh)}
    if k == 'dur':
        return {'dur': rand_chrono_count(rng, sh)}
    if k == 'dyn':
        return rand_dyn(rng, ctx, 0)
    raise ValueError(k)


def rand_key(sh, rng, ctx):
    if sh['k'] == 'str':
        return {'s': rand_name(rng, ctx).encode('utf-8').hex()}
    if sh['k'] in ('f32', 'f64'):
        c2 = dict(ctx)
        c2['nonfinite'] = False
        v = rand_value(sh, rng, c2)
        hx = list(v.values())[0]
        if int(hx, 16) == (1 << (31 if sh['k'] == 'f32' else 63)):
            v = {sh['k']: '0' * len(hx)}          # -0.0 == 0.0 as a key
        return v
    return rand_value(sh, rng, ctx)


def rand_dyn(rng, ctx, depth):
    kind = rng.randrange(0, 6 if depth >= 4 else 8)
    if kind == 0:
        return {'dyn': 0}
    if kind == 1:
        return {'dyn': 1, 'v': rng.random() < 0.5}
    if kind == 2:
        return {'dyn': 2, 'v': rand_int(rng, -(1 << 63), (1 << 63) - 1)}
    if kind == 3:
        return {'dyn': 3, 'v': rand_int(rng, 0, (1 << 64) - 1)}
    if kind == 4:
        return {'dyn': 4, 'v': {'f64': rand_f64(rng, ctx)}}
    if kind == 5:
        return {'dyn': 5, 'v': {'s': rand_text(rng, ctx).encode('utf-8').hex()}}
    if kind == 6:
        return {'dyn': 6, 'v': [rand_dyn(rng, ctx, depth + 1) for _ in range(rng.randrange(0, 4))]}
    keys = []
    for _ in range(rng.randrange(0, 4)):
        kx = rand_name(rng, ctx).encode('utf-8').hex()
        if kx not in keys:
            keys.append(kx)
    return {'dyn': 7, 'v': {'m': [[{'s': kx}, rand_dyn(rng, ctx, depth + 1)] for kx in sorted(keys, key=bytes.fromhex)]}}


# ---------------------------------------------------------------- expected MessagePack data model
def ts_of(count, unit):
    total = Fraction(count) * UNIT[unit]
    sec = total.numerator // total.denominator
    ns = (total - sec) * 10 ** 9
    assert ns.denominator == 1
    return sec, int(ns)


def fbits(hx, width):
    if hx == 'nan':
        return 'nan'
    return int(hx, 16)


def mp_tree(v, sh, as_key=False):
    """Item tree (oracles.msgpack_ref) that a conformant writer must produce for value v of shape sh."""
    k = sh['k']
    if k == 'bool':
        if as_key:
            return {'t': 'str', 'v': b'true' if v else b'false'}
        return {'t': 'bool', 'v': bool(v)}
    if k == 'int':
        return {'t': 'int', 'v': int(v)}
    if k == 'enum':
        inv = {val: name for name, val in sh['names'].items()}
        return {'t': 'str', 'v': inv[v['e']].encode()}
    if k == 'f32':
        return {'t': 'f32', 'v': fbits(v['f32'], 32)}
    if k == 'f64':
        return {'t': 'f64', 'v': fbits(v['f64'], 64)}
    if k == 'str':
        return {'t': 'str', 'v': bytes.fromhex(v['s'])}
    if k == 'obj':
        return {'t': 'map', 'v': [({'t': 'str', 'v': name.encode()}, mp_tree(v['o'][name], fs)) for name, fs in sh['f']]}
    if k == 'seq':
        if sh.get('bin'):
            return {'t': 'bin', 'v': bytes((x & 0xff) for x in v)}
        return {'t': 'array', 'v': [mp_tree(x, sh['e']) for x in v], 'unordered': bool(sh.get('unordered'))}
    if k == 'tuple':
        return {'t': 'array', 'v': [mp_tree(x, es) for x, es in zip(v, sh['e'])]}
    if k == 'map':
        return {'t': 'map', 'v': [(mp_tree(kv[0], sh['key'], True), mp_tree(kv[1], sh['val'])) for kv in v['m']], 'unordered': True}
    if k == 'multimap':
        return {'t': 'array', 'unordered': True, 'v': [{'t': 'map', 'v': [({'t': 'str', 'v': b'key'}, mp_tree(kv[0], sh['key'])), ({'t': 'str', 'v': b'value'}, mp_tree(kv[1], sh['val']))]} for kv in v['m']]}
    if k == 'opt':
        return {'t': 'nil', 'v': None} if v is None else mp_tree(v, sh['e'])
    if k == 'atomic':
        return mp_tree(v, sh['e'])
    if k == 'tp':
        return {'t': 'ts', 'v': ts_of(v['tp'], sh['unit'])}
    if k == 'dur':
        return {'t': 'ts', 'v': ts_of(v['dur'], sh['unit'])}
    if k == 'dyn':
        return mp_dyn(v)
    raise ValueError(k)


def mp_dyn(v):
    kind = v['dyn']
    items = [({'t': 'str', 'v': b't'}, {'t': 'int', 'v': kind})]
    if kind == 1:
        items.append(({'t': 'str', 'v': b'v'}, {'t': 'bool', 'v': v['v']}))
    elif kind in (2, 3):
        items.append(({'t': 'str', 'v': b'v'}, {'t': 'int', 'v': v['v']}))
    elif kind == 4:
        items.append(({'t': 'str', 'v': b'v'}, {'t': 'f64', 'v': fbits(v['v']['f64'], 64)}))
    elif kind == 5:
        items.append(({'t': 'str', 'v': b'v'}, {'t': 'str', 'v': bytes.fromhex(v['v']['s'])}))
    elif kind == 6:
        items.append(({'t': 'str', 'v': b'v'}, {'t': 'array', 'v': [mp_dyn(x) for x in v['v']]}))
    elif kind == 7:
        items.append(({'t': 'str', 'v': b'v'}, {'t': 'map', 'unordered': True, 'v': [({'t': 'str', 'v': bytes.fromhex(kv[0]['s'])}, mp_dyn(kv[1])) for kv in v['v']['m']]}))
    return {'t': 'map', 'v': items}


def mp_equal(got, exp, path=''):
    """Compares a decoded item with an expected item; returns None or a description of the first difference."""
    if got['t'] != exp['t']:
        return '%s: type %s, expected %s' % (path or '/', got['t'], exp['t'])
    t = exp['t']
    if t in ('array',):
        if len(got['v']) != len(exp['v']):
            return '%s: %d elements, expected %d' % (path or '/', len(got['v']), len(exp['v']))
        if exp.get('unordered'):
            from oracles import msgpack_ref as M
            ge = sorted(got['v'], key=lambda x: repr(M.strip(x)))
            ee = sorted(exp['v'], key=lambda x: repr(M.strip(_denan(x))))
            for i, (g, e) in enumerate(zip(ge, ee)):
                d = mp_equal(g, e, path + '/{}')
                if d:
                    return d
            return None
        for i, (g, e) in enumerate(zip(got['v'], exp['v'])):
            d = mp_equal(g, e, path + '/[]')
            if d:
                return d
        return None
    if t == 'map':
        if len(got['v']) != len(exp['v']):
            return '%s: %d entries, expected %d' % (path or '/', len(got['v']), len(exp['v']))
        gv, ev = got['v'], exp['v']
        if exp.get('unordered'):
            from oracles import msgpack_ref as M
            gv = sorted(gv, key=lambda kv: repr(M.strip(kv[0])))
            ev = sorted(ev, key=lambda kv: repr(M.strip(kv[0])))
        for (gk, gval), (ek, eval_) in zip(gv, ev):
            d = mp_equal(gk, ek, path + '/<key>')
            if d:
                return d
            name = ek['v'].decode('utf-8', 'replace') if ek['t'] == 'str' else str(ek['v'])
            d = mp_equal(gval, eval_, path + '/' + name)
            if d:
                return d
        return None
    if t in ('f32', 'f64'):
        if exp['v'] == 'nan':
            mask, expo = (0x7fffffff, 0x7f800000) if t == 'f32' else (0x7fffffffffffffff, 0x7ff0000000000000)
            return None if (got['v'] & mask) > expo else '%s: expected NaN' % (path or '/')
        return None if got['v'] == exp['v'] else '%s: float bits %x, expected %x' % (path or '/', got['v'], exp['v'])
    if got['v'] != exp['v']:
        return '%s: %r, expected %r' % (path or '/', got['v'], exp['v'])
    return None


def _denan(x):
    return x


# ---------------------------------------------------------------- defaults and legal alternative encodings (reader side)
def default_value(sh):
    k = sh['k']
    if k == 'bool':
        return False
    if k == 'int':
        return 0
    if k == 'enum':
        return {'e': 0}
    if k == 'f32':
        return {'f32': '00000000'}
    if k == 'f64':
        return {'f64': '0000000000000000'}
    if k == 'str':
        return {'s': ''}
    if k == 'obj':
        return {'o': {name: default_value(fs) for name, fs in sh['f']}}
    if k == 'seq':
        return [default_value(sh['e']) for _ in range(sh['fixed'])] if 'fixed' in sh else []
    if k == 'tuple':
        return [default_value(es) for es in sh['e']]
    if k in ('map', 'multimap'):
        return {'m': []}
    if k == 'opt':
        return None
    if k == 'atomic':
        return default_value(sh['e'])
    if k == 'tp':
        return {'tp': 0}
    if k == 'dur':
        return {'dur': 0}
    if k == 'dyn':
        return {'dyn': 0}
    raise ValueError(k)


def f64_fits_f32(hx):
    if hx == 'nan':
        return False
    d = struct.unpack('>d', bytes.fromhex(hx))[0]
    try:
        f = struct.unpack('>f', struct.pack('>f', d))[0]
    except OverflowError:
        return False
    return struct.pack('>d', f) == bytes.fromhex(hx)


def mp_variant(v, sh, rng, opts, as_key=False):
    """A legal MessagePack item tree for value v that differs from the canonical writer output (family/width of numbers, bool<->int,
    float width, bin as array, member order, unknown members, nil members). Returns (tree, expected value after loading into a fresh target)."""
    k = sh['k']
    r = rng.random()
    if k == 'int' and not as_key and v in (0, 1) and r < 0.1:
        return {'t': 'bool', 'v': bool(v)}, v
    if k == 'bool' and not as_key and r < 0.15:
        return {'t': 'int', 'v': 1 if v else 0}, v
    if k == 'f32' and not as_key and r < 0.3 and v['f32'] != 'nan' and (int(v['f32'], 16) & 0x7f800000) != 0x7f800000:   # (non-finite double into float is C04's business)
        d = struct.unpack('>f', bytes.fromhex(v['f32']))[0]
        return {'t': 'f64', 'v': int.from_bytes(struct.pack('>d', d), 'big')}, v
    if k == 'f64' and not as_key and r < 0.3 and f64_fits_f32(v['f64']):
        d = struct.unpack('>d', bytes.fromhex(v['f64']))[0]
        return {'t': 'f32', 'v': int.from_bytes(struct.pack('>f', d), 'big')}, v
    if k == 'obj':
        items, exp = [], {}
        for name, fs in sh['f']:
            if opts.get('nil') and rng.random() < 0.08:
                items.append(({'t': 'str', 'v': name.encode()}, {'t': 'nil', 'v': None}))
                exp[name] = default_value(fs)
                continue
            if opts.get('absent') and rng.random() < 0.05:
                exp[name] = default_value(fs)
                continue
            t, e = mp_variant(v['o'][name], fs, rng, opts)
            items.append(({'t': 'str', 'v': name.encode()}, t))
            exp[name] = e
        if opts.get('unknown') and rng.random() < 0.2:
            junk = rng.choice([{'t': 'int', 'v': 7}, {'t': 'str', 'v': b'junk'}, {'t': 'array', 'v': [{'t': 'nil', 'v': None}, {'t': 'map', 'v': [({'t': 'str', 'v': b'a'}, {'t': 'bin', 'v': b'\x01\x02'})]}]},
                               {'t': 'ts', 'v': (1, 5)}, {'t': 'ext', 'v': (5, b'abc')}, {'t': 'f64', 'v': 0x3ff8000000000000}, {'t': 'bool', 'v': True}])
            items.insert(rng.randrange(len(items) + 1), ({'t': 'str', 'v': b'zz_unknown'}, junk))
        if opts.get('shuffle') and rng.random() < 0.5:
            rng.shuffle(items)
        return {'t': 'map', 'v': items}, {'o': exp}
    if k == 'seq':
        if sh.get('bin'):
            raw = bytes((x & 0xff) for x in v)
            if opts.get('bin_as_array') and r < 0.25:
                signed = sh['e'].get('signed', False)
                return {'t': 'array', 'v': [{'t': 'int', 'v': (x - 256 if (signed and x > 127) else x)} for x in raw]}, v
            return {'t': 'bin', 'v': raw}, v
        ts, es = [], []
        for x in v:
            t, e = mp_variant(x, sh['e'], rng, opts)
            ts.append(t)
            es.append(e)
        return {'t': 'array', 'v': ts}, es
    if k == 'tuple':
        pairs = [mp_variant(x, s2, rng, opts) for x, s2 in zip(v, sh['e'])]
        return {'t': 'array', 'v': [p[0] for p in pairs]}, [p[1] for p in pairs]
    if k == 'map':
        items, exp = [], []
        for kv in v['m']:
            kt, ke = mp_variant(kv[0], sh['key'], rng, opts, as_key=True)
            vt, ve = mp_variant(kv[1], sh['val'], rng, opts)
            items.append((kt, vt))
            exp.append([ke, ve])
        if opts.get('shuffle'):
            rng.shuffle(items)
        return {'t': 'map', 'v': items}, {'m': exp}
    if k == 'multimap':
        items, exp = [], []
        for kv in v['m']:
            kt, ke = mp_variant(kv[0], sh['key'], rng, opts)
            vt, ve = mp_variant(kv[1], sh['val'], rng, opts)
            pair = [({'t': 'str', 'v': b'key'}, kt), ({'t': 'str', 'v': b'value'}, vt)]
            if opts.get('shuffle') and rng.random() < 0.5:
                pair.reverse()
            items.append({'t': 'map', 'v': pair})
            exp.append([ke, ve])
        return {'t': 'array', 'v': items}, {'m': exp}
    if k == 'opt':
        if v is None:
            return {'t': 'nil', 'v': None}, None
        return mp_variant(v, sh['e'], rng, opts)
    if k == 'atomic':
        return mp_variant(v, sh['e'], rng, opts)
    if k == 'dyn':
        return mp_dyn(v), v
    return mp_tree(v, sh, as_key), v
