"""Expected JSON / XML data model of a described value (driver describe() format + shape), for C08.

check_json(parsed, v, sh)   parsed = result of an independent JSON parser (dict preserved as list of pairs via object_pairs_hook=Pairs)
check_xml(node, v, sh)      node = XNode tree built by expat
item(v, sh, arch)           document model of oracles.render for independent re-rendering
"""
import re
import struct
from fractions import Fraction

from oracles.shapes import UNIT


class Pairs(list):
    """JSON object as the ordered list of (key, value) pairs."""


class XNode:
    __slots__ = ('name', 'attrs', 'children', 'text')

    def __init__(self, name, attrs):
        self.name, self.attrs, self.children, self.text = name, attrs, [], ''


# ---------------------------------------------------------------- ISO-8601
def days_from_civil(y, m, d):
    y -= m <= 2
    era = y // 400
    yoe = y - era * 400
    doy = (153 * (m + (-3 if m > 2 else 9)) + 2) // 5 + d - 1
    doe = yoe * 365 + yoe // 4 - yoe // 100 + doy
    return era * 146097 + doe - 719468


def civil_from_days(z):
    z += 719468
    era = z // 146097
    doe = z - era * 146097
    yoe = (doe - doe // 1460 + doe // 36524 - doe // 146096) // 365
    y = yoe + era * 400
    doy = doe - (365 * yoe + yoe // 4 - yoe // 100)
    mp = (5 * doy + 2) // 153
    d = doy - (153 * mp + 2) // 5 + 1
    m = mp + (3 if mp < 10 else -9)
    return y + (m <= 2), m, d


TP_RE = re.compile(r'^([+-]?)(\d{4,})-(\d\d)-(\d\d)T(\d\d):(\d\d):(\d\d)(?:\.(\d+))?Z$')
DUR_RE = re.compile(r'^(-?)P(?:(\d+)D)?(?:T(?:(\d+)H)?(?:(\d+)M)?(?:(\d+)(?:\.(\d+))?S)?)?$')


def parse_tp(s):
    m = TP_RE.match(s)
    if not m:
        return None
    y = int(m.group(2)) * (-1 if m.group(1) == '-' else 1)
    mo, d, h, mi, sec = (int(m.group(i)) for i in range(3, 8))
    if not (1 <= mo <= 12 and 1 <= d <= 31 and h < 24 and mi < 60 and sec < 60):
        return None
    total = Fraction(days_from_civil(y, mo, d) * 86400 + h * 3600 + mi * 60 + sec)
    if m.group(8):
        total += Fraction(int(m.group(8)), 10 ** len(m.group(8)))
    return total


def parse_dur(s):
    m = DUR_RE.match(s)
    if not m or s in ('P', '-P', 'PT', '-PT'):
        return None
    total = Fraction(int(m.group(2) or 0) * 86400 + int(m.group(3) or 0) * 3600 + int(m.group(4) or 0) * 60 + int(m.group(5) or 0))
    if m.group(6):
        total += Fraction(int(m.group(6)), 10 ** len(m.group(6)))
    return -total if m.group(1) else total


def iso_tp(count, unit, rng=None):
    total = Fraction(count) * UNIT[unit]
    sec = total.numerator // total.denominator
    frac = total - sec
    days, rem = divmod(sec, 86400)
    y, mo, d = civil_from_days(days)
    s = '%s%04d-%02d-%02dT%02d:%02d:%02d' % ('-' if y < 0 else '+' if y > 9999 else '', abs(y), mo, d, rem // 3600, rem // 60 % 60, rem % 60)
    if frac:
        digits = ('%09d' % int(frac * 10 ** 9))
        digits = digits.rstrip('0') if (rng is None or rng.random() < 0.5) else digits[:{'ms': 3, 'us': 6}.get(unit, 9)] if int(digits[{'ms': 3, 'us': 6}.get(unit, 9):] or 0) == 0 else digits
        s += '.' + digits
    elif rng is not None and rng.random() < 0.2 and unit in ('ms', 'us', 'ns'):
        s += '.' + '0' * {'ms': 3, 'us': 6, 'ns': 9}[unit]
    return s + 'Z'


def iso_dur(count, unit):
    total = Fraction(count) * UNIT[unit]
    neg = total < 0
    total = abs(total)
    sec = total.numerator // total.denominator
    frac = total - sec
    d, rem = divmod(sec, 86400)
    h, mi, s = rem // 3600, rem // 60 % 60, rem % 60
    out = 'P'
    if d:
        out += '%dD' % d
    t = ''
    if h:
        t += '%dH' % h
    if mi:
        t += '%dM' % mi
    if s or frac or not (d or h or mi):
        t += '%d' % s + (('.' + ('%09d' % int(frac * 10 ** 9)).rstrip('0')) if frac else '') + 'S'
    if t:
        out += 'T' + t
    return ('-' if neg else '') + out


# ---------------------------------------------------------------- leaves
def f_bits(x, width):
    try:
        return struct.pack('>f' if width == 32 else '>d', x).hex()
    except OverflowError:
        return 'inf'


def float_ok(parsed, hexbits, width):
    """parsed: python float/int/str"""
    try:
        x = float(parsed)
    except (TypeError, ValueError):
        return False
    if hexbits == 'nan':
        return x != x
    want = struct.unpack('>f' if width == 32 else '>d', bytes.fromhex(hexbits))[0]
    if width == 32:
        try:
            x = struct.unpack('>f', struct.pack('>f', x))[0]
        except OverflowError:
            return False
    return x == want and (x != 0 or str(x)[0] == str(want)[0])


INT_RE = re.compile(r'^-?\d+$')


def leaf_why(parsed, v, sh, text_form):
    """text_form: the leaf arrives as text (XML text / attribute, JSON object key); otherwise as a typed JSON value"""
    k = sh['k']
    if k == 'bool':
        want = ('true' if v else 'false') if text_form else bool(v)
        return None if (parsed == want and (text_form or isinstance(parsed, bool))) else 'bool %r, expected %r' % (parsed, want)
    if k == 'int':
        if text_form:
            return None if (isinstance(parsed, str) and INT_RE.match(parsed) and int(parsed) == v) else 'integer text %r, expected %d' % (parsed, v)
        return None if (isinstance(parsed, int) and not isinstance(parsed, bool) and parsed == v) else 'number %r, expected %d' % (parsed, v)
    if k == 'enum':
        inv = {val: name for name, val in sh['names'].items()}
        return None if parsed == inv.get(v['e']) else 'enum %r, expected %r' % (parsed, inv.get(v['e']))
    if k in ('f32', 'f64'):
        if not text_form and (isinstance(parsed, bool) or not isinstance(parsed, (int, float))):
            return 'float arrives as %r' % (parsed,)
        return None if float_ok(parsed, v[k], 32 if k == 'f32' else 64) else 'float %r, expected bits %s' % (parsed, v[k])
    if k == 'str':
        want = bytes.fromhex(v['s']).decode('utf-8', 'surrogatepass')
        if text_form and parsed != want and '\r' in want and parsed == want.replace('\r\n', '\n').replace('\r', '\n'):
            CR_NORMALISED.append(want)         # XML end-of-line normalisation of a raw CR: judged separately by the caller
            return None
        return None if parsed == want else 'string %r, expected %r' % (parsed[:60] if isinstance(parsed, str) else parsed, want[:60])
    if k == 'tp':
        got = parse_tp(parsed) if isinstance(parsed, str) else None
        return None if got == Fraction(v['tp']) * UNIT[sh['unit']] else 'time point %r does not denote count %d %s' % (parsed, v['tp'], sh['unit'])
    if k == 'dur':
        got = parse_dur(parsed) if isinstance(parsed, str) else None
        return None if got == Fraction(v['dur']) * UNIT[sh['unit']] else 'duration %r does not denote count %d %s' % (parsed, v['dur'], sh['unit'])
    return 'unexpected leaf kind ' + k


CR_NORMALISED = []
LEAVES = ('bool', 'int', 'enum', 'f32', 'f64', 'str', 'tp', 'dur')


def inner(sh):
    while sh['k'] in ('opt', 'atomic'):
        sh = sh['e']
    return sh


# ---------------------------------------------------------------- JSON
def check_json(p, v, sh, path=''):
    k = sh['k']
    if k in LEAVES:
        w = leaf_why(p, v, sh, False)
        return None if w is None else '%s: %s' % (path or '/', w)
    if k == 'opt':
        if v is None:
            return None if p is None else '%s: %r, expected null' % (path, p)
        return check_json(p, v, sh['e'], path)
    if k == 'atomic':
        return check_json(p, v, sh['e'], path)
    if k == 'obj':
        if not isinstance(p, Pairs):
            return '%s: not an object' % path
        names = [n for n, _ in sh['f'] if n in v['o']]
        if [kk for kk, _ in p] != names:
            return '%s: members %s, expected %s' % (path, [kk for kk, _ in p], names)
        for (kk, pv), (n, fs) in zip(p, [(n, fs) for n, fs in sh['f'] if n in v['o']]):
            w = check_json(pv, v['o'][n], fs, path + '/' + n)
            if w:
                return w
        return None
    if k in ('seq', 'tuple'):
        if not isinstance(p, list) or isinstance(p, Pairs):
            return '%s: not an array' % path
        if len(p) != len(v):
            return '%s: %d elements, expected %d' % (path, len(p), len(v))
        shapes = sh['e'] if k == 'tuple' else [sh['e']] * len(v)
        if k == 'seq' and sh.get('unordered'):
            return match_unordered(p, v, lambda a, b: check_json(a, b, sh['e'], path + '/[]'), path)
        for i, (pv, vv, es) in enumerate(zip(p, v, shapes)):
            w = check_json(pv, vv, es, '%s/%d' % (path, i))
            if w:
                return w
        return None
    if k == 'map':
        if not isinstance(p, Pairs):
            return '%s: not an object' % path
        if len(p) != len(v['m']):
            return '%s: %d members, expected %d' % (path, len(p), len(v['m']))
        return match_unordered(list(p), v['m'], lambda a, b: (leaf_why(a[0], b[0], sh['key'], True) and '%s: key %r' % (path, a[0])) or check_json(a[1], b[1], sh['val'], '%s/%s' % (path, a[0])), path)
    if k == 'multimap':
        if not isinstance(p, list) or isinstance(p, Pairs):
            return '%s: not an array of pairs' % path

        def pair(a, b):
            if not isinstance(a, Pairs) or [x for x, _ in a] != ['key', 'value']:
                return '%s: pair members %r' % (path, a)
            return check_json(a[0][1], b[0], sh['key'], path + '/key') or check_json(a[1][1], b[1], sh['val'], path + '/value')
        if len(p) != len(v['m']):
            return '%s: %d pairs, expected %d' % (path, len(p), len(v['m']))
        return match_unordered(p, v['m'], pair, path)
    if k == 'dyn':
        return check_json_dyn(p, v, path)
    return '%s: unknown shape %s' % (path, k)


def match_unordered(ps, vs, why, path):
    """every expected element must match a distinct parsed element"""
    used = set()
    first = None
    for vv in vs:
        hit = None
        for i, pv in enumerate(ps):
            if i in used:
                continue
            w = why(pv, vv)
            if w is None:
                hit = i
                break
            first = first or w
        if hit is None:
            return first or '%s: element not found' % path
        used.add(hit)
    return None


def check_json_dyn(p, v, path):
    kind = v['dyn']
    if not isinstance(p, Pairs) or not p or p[0][0] != 't' or p[0][1] != kind:
        return '%s: dynamic node %r, expected kind %d' % (path, p, kind)
    if kind == 0:
        return None if len(p) == 1 else '%s: extra members' % path
    if len(p) != 2 or p[1][0] != 'v':
        return '%s: dynamic node members %r' % (path, [x for x, _ in p])
    pv = p[1][1]
    if kind == 1:
        return leaf_why(pv, v['v'], {'k': 'bool'}, False)
    if kind in (2, 3):
        return leaf_why(pv, v['v'], {'k': 'int'}, False)
    if kind == 4:
        return leaf_why(pv, v['v'], {'k': 'f64'}, False)
    if kind == 5:
        return leaf_why(pv, v['v'], {'k': 'str'}, False)
    if kind == 6:
        if not isinstance(pv, list) or len(pv) != len(v['v']):
            return '%s: array length' % path
        for i, (a, b) in enumerate(zip(pv, v['v'])):
            w = check_json_dyn(a, b, '%s/%d' % (path, i))
            if w:
                return w
        return None
    if not isinstance(pv, Pairs) or len(pv) != len(v['v']['m']):
        return '%s: object size' % path
    return match_unordered(list(pv), v['v']['m'], lambda a, b: (leaf_why(a[0], b[0], {'k': 'str'}, True)) or check_json_dyn(a[1], b[1], path + '/' + a[0]), path)


# ---------------------------------------------------------------- XML
def elem_name(sh):
    k = inner(sh)['k']
    if k in LEAVES:
        return 'value'
    if k in ('seq', 'tuple', 'multimap'):
        return 'array'
    return 'object'


def check_xml(n, v, sh, path=''):
    k = sh['k']
    if k in LEAVES:
        if n.children:
            return '%s: leaf element has child elements' % path
        w = leaf_why(n.text, v, sh, True)
        return None if w is None else '%s: %s' % (path or '/', w)
    if k == 'opt':
        if v is None:
            return None if (n is None or (not n.children and n.text == '')) else '%s: expected an empty element for null' % path
        return check_xml(n, v, sh['e'], path)
    if k == 'atomic':
        return check_xml(n, v, sh['e'], path)
    if k == 'obj':
        fields = [(name, fs) for name, fs in sh['f'] if name in v['o']]
        kids = list(n.children)
        names = [c.name for c in kids]
        want = [name for name, fs in fields if not (inner(fs) is not fs and v['o'][name] is None and name not in names)]
        if names != want:
            return '%s: child elements %s, expected %s' % (path, names, want)
        by = {c.name: c for c in kids}
        for name, fs in fields:
            if name not in by:
                continue
            w = check_xml(by[name], v['o'][name], fs, path + '/' + name)
            if w:
                return w
        return None
    if k in ('seq', 'tuple'):
        kids = list(n.children)
        if len(kids) != len(v):
            return '%s: %d child elements, expected %d' % (path, len(kids), len(v))
        shapes = sh['e'] if k == 'tuple' else [sh['e']] * len(v)
        for c, es in zip(kids, shapes):
            if c.name != elem_name(es):
                return '%s: array element named <%s>, expected <%s>' % (path, c.name, elem_name(es))
        if k == 'seq' and sh.get('unordered'):
            return match_unordered(kids, v, lambda a, b: check_xml(a, b, sh['e'], path + '/[]'), path)
        for i, (c, vv, es) in enumerate(zip(kids, v, shapes)):
            w = check_xml(c, vv, es, '%s/%d' % (path, i))
            if w:
                return w
        return None
    if k == 'map':
        kids = list(n.children)
        if len(kids) != len(v['m']):
            return '%s: %d child elements, expected %d' % (path, len(kids), len(v['m']))
        return match_unordered(kids, v['m'], lambda a, b: (leaf_why(a.name, b[0], sh['key'], True) and '%s: key <%s>' % (path, a.name)) or check_xml(a, b[1], sh['val'], '%s/%s' % (path, a.name)), path)
    if k == 'multimap':
        kids = list(n.children)
        if len(kids) != len(v['m']):
            return '%s: %d pairs, expected %d' % (path, len(kids), len(v['m']))

        def pair(a, b):
            if [c.name for c in a.children] != ['key', 'value']:
                return '%s: pair children %s' % (path, [c.name for c in a.children])
            return check_xml(a.children[0], b[0], sh['key'], path + '/key') or check_xml(a.children[1], b[1], sh['val'], path + '/value')
        return match_unordered(kids, v['m'], pair, path)
    if k == 'dyn':
        return check_xml_dyn(n, v, path)
    return '%s: unknown shape %s' % (path, k)


def check_xml_dyn(n, v, path):
    kind = v['dyn']
    kids = n.children
    if not kids or kids[0].name != 't' or kids[0].text != str(kind):
        return '%s: dynamic node, expected kind %d' % (path, kind)
    if kind == 0:
        return None
    if len(kids) != 2 or kids[1].name != 'v':
        return '%s: dynamic node children' % path
    c = kids[1]
    if kind == 1:
        return leaf_why(c.text, v['v'], {'k': 'bool'}, True)
    if kind in (2, 3):
        return leaf_why(c.text, v['v'], {'k': 'int'}, True)
    if kind == 4:
        return leaf_why(c.text, v['v'], {'k': 'f64'}, True)
    if kind == 5:
        return leaf_why(c.text, v['v'], {'k': 'str'}, True)
    if kind == 6:
        if len(c.children) != len(v['v']):
            return '%s: array length' % path
        for i, (a, b) in enumerate(zip(c.children, v['v'])):
            w = check_xml_dyn(a, b, '%s/%d' % (path, i))
            if w:
                return w
        return None
    if len(c.children) != len(v['v']['m']):
        return '%s: object size' % path
    return match_unordered(list(c.children), v['v']['m'], lambda a, b: (leaf_why(a.name, b[0], {'k': 'str'}, True)) or check_xml_dyn(a, b[1], path + '/' + a.name), path)


# ---------------------------------------------------------------- document model for re-rendering (oracles.render)
def key_text(kv, sh, rng=None):
    k = sh['k']
    if k == 'str':
        return bytes.fromhex(kv['s']).decode('utf-8')
    if k == 'bool':
        return 'true' if kv else 'false'
    if k == 'int':
        return str(kv)
    if k == 'enum':
        return {val: name for name, val in sh['names'].items()}[kv['e']]
    if k in ('f32', 'f64'):
        x = struct.unpack('>f' if k == 'f32' else '>d', bytes.fromhex(kv[k]))[0]
        return repr(x)
    if k == 'tp':
        return iso_tp(kv['tp'], sh['unit'])
    if k == 'dur':
        return iso_dur(kv['dur'], sh['unit'])
    raise ValueError(k)


def item(v, sh, arch, rng=None):
    k = sh['k']
    if k == 'bool':
        return ('b', bool(v))
    if k == 'int':
        return ('i', v)
    if k == 'enum':
        return ('s', key_text(v, sh))
    if k == 'f32':
        x = struct.unpack('>f', bytes.fromhex(v['f32']))[0]
        return ('f', struct.pack('>d', x).hex())      # the exact value of the float as a double: same number, other spelling
    if k == 'f64':
        return ('f', v['f64'])
    if k == 'str':
        return ('s', bytes.fromhex(v['s']).decode('utf-8'))
    if k == 'tp':
        return ('s', iso_tp(v['tp'], sh['unit'], rng))
    if k == 'dur':
        return ('s', iso_dur(v['dur'], sh['unit']))
    if k == 'opt':
        return ('n',) if v is None else item(v, sh['e'], arch, rng)
    if k == 'atomic':
        return item(v, sh['e'], arch, rng)
    if k == 'obj':
        members = [(name, item(v['o'][name], fs, arch, rng)) for name, fs in sh['f'] if name in v['o']]
        if rng is not None and rng.random() < 0.5:
            rng.shuffle(members)
        return ('o', members)
    if k == 'seq':
        return ('a', [item(x, sh['e'], arch, rng) for x in v])
    if k == 'tuple':
        return ('a', [item(x, es, arch, rng) for x, es in zip(v, sh['e'])])
    if k == 'map':
        members = [(key_text(kv[0], sh['key']), item(kv[1], sh['val'], arch, rng)) for kv in v['m']]
        if rng is not None:
            rng.shuffle(members)
        return ('o', members)
    if k == 'multimap':
        out = []
        for kv in v['m']:
            pair = [('key', item(kv[0], sh['key'], arch, rng)), ('value', item(kv[1], sh['val'], arch, rng))]
            if rng is not None and rng.random() < 0.5:
                pair.reverse()
            out.append(('o', pair))
        return ('a', out)
    if k == 'dyn':
        return item_dyn(v)
    raise ValueError(k)


def item_dyn(v):
    kind = v['dyn']
    m = [('t', ('i', kind))]
    if kind == 1:
        m.append(('v', ('b', v['v'])))
    elif kind in (2, 3):
        m.append(('v', ('i', v['v'])))
    elif kind == 4:
        m.append(('v', ('f', v['v']['f64'])))
    elif kind == 5:
        m.append(('v', ('s', bytes.fromhex(v['v']['s']).decode('utf-8'))))
    elif kind == 6:
        m.append(('v', ('a', [item_dyn(x) for x in v['v']])))
    elif kind == 7:
        m.append(('v', ('o', [(bytes.fromhex(kv[0]['s']).decode('utf-8'), item_dyn(kv[1])) for kv in v['v']['m']])))
    return ('o', m)


def _selfcheck():
    """The calendar helpers are compared with CPython datetime over years 1..9999 (every 97th day) at import."""
    import datetime
    epoch = datetime.date(1970, 1, 1).toordinal()
    for o in range(1, datetime.date(9999, 12, 31).toordinal() + 1, 97):
        dt = datetime.date.fromordinal(o)
        n = o - epoch
        if days_from_civil(dt.year, dt.month, dt.day) != n or civil_from_days(n) != (dt.year, dt.month, dt.day):
            raise AssertionError('calendar helper disagrees with datetime at %s' % dt)


_selfcheck()
