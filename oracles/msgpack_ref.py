"""Independent MessagePack reference codec written from the specification text (https://github.com/msgpack/msgpack/blob/master/spec.md).

decode(data, strict_utf8=True) -> Item tree ; raises MsgPackError for ill-formed / truncated / trailing input.
encode(item, chooser) -> bytes, where the chooser may pick any *legal* format for every item (not only the minimal one).

Item = dict with keys:
  t   : 'nil' | 'bool' | 'int' | 'f32' | 'f64' | 'str' | 'bin' | 'array' | 'map' | 'ts' | 'ext'
  v   : python value  (int / bool / None / bytes for str (raw UTF-8) and bin / list of items / list of (key item, value item) /
        (seconds, nanoseconds) for ts / (type, bytes) for ext ; floats are kept as their bit pattern (int))
  fmt : name of the format used in the byte stream (filled by decode; optional request for encode)
"""
import struct


class MsgPackError(Exception):
    pass


def _need(data, pos, n):
    if pos + n > len(data):
        raise MsgPackError('truncated at %d (need %d)' % (pos, n))


def _u(data, pos, n):
    _need(data, pos, n)
    return int.from_bytes(data[pos:pos + n], 'big'), pos + n


def _s(data, pos, n):
    _need(data, pos, n)
    return int.from_bytes(data[pos:pos + n], 'big', signed=True), pos + n


TS96_SECONDS_FIRST = False   # set by a checker to re-interpret timestamp 96 as (seconds, nanoseconds) - NOT the layout of the specification


def _timestamp(payload):
    if len(payload) == 12 and TS96_SECONDS_FIRST:
        sec = int.from_bytes(payload[:8], 'big', signed=True)
        ns = int.from_bytes(payload[8:], 'big')
        if ns > 999999999:
            raise MsgPackError('timestamp96 nanoseconds out of range: %d' % ns)
        return sec, ns
    if len(payload) == 4:
        return int.from_bytes(payload, 'big'), 0
    if len(payload) == 8:
        v = int.from_bytes(payload, 'big')
        ns, sec = v >> 34, v & ((1 << 34) - 1)
        if ns > 999999999:
            raise MsgPackError('timestamp64 nanoseconds out of range: %d' % ns)
        return sec, ns
    if len(payload) == 12:
        ns = int.from_bytes(payload[:4], 'big')
        sec = int.from_bytes(payload[4:], 'big', signed=True)
        if ns > 999999999:
            raise MsgPackError('timestamp96 nanoseconds out of range: %d' % ns)
        return sec, ns
    raise MsgPackError('timestamp extension with illegal length %d' % len(payload))


def _decode(data, pos, strict_utf8, depth):
    if depth > 2000:
        raise MsgPackError('nesting too deep')
    _need(data, pos, 1)
    b = data[pos]
    pos += 1
    if b <= 0x7f:
        return {'t': 'int', 'v': b, 'fmt': 'posfixint'}, pos
    if b >= 0xe0:
        return {'t': 'int', 'v': b - 256, 'fmt': 'negfixint'}, pos
    if 0x80 <= b <= 0x8f:
        return _map(data, pos, b & 0x0f, 'fixmap', strict_utf8, depth)
    if 0x90 <= b <= 0x9f:
        return _array(data, pos, b & 0x0f, 'fixarray', strict_utf8, depth)
    if 0xa0 <= b <= 0xbf:
        return _str(data, pos, b & 0x1f, 'fixstr', strict_utf8)
    if b == 0xc0:
        return {'t': 'nil', 'v': None, 'fmt': 'nil'}, pos
    if b == 0xc1:
        raise MsgPackError('0xc1 is never used')
    if b == 0xc2:
        return {'t': 'bool', 'v': False, 'fmt': 'false'}, pos
    if b == 0xc3:
        return {'t': 'bool', 'v': True, 'fmt': 'true'}, pos
    if b in (0xc4, 0xc5, 0xc6):
        n, pos = _u(data, pos, {0xc4: 1, 0xc5: 2, 0xc6: 4}[b])
        _need(data, pos, n)
        return {'t': 'bin', 'v': bytes(data[pos:pos + n]), 'fmt': {0xc4: 'bin8', 0xc5: 'bin16', 0xc6: 'bin32'}[b]}, pos + n
    if b in (0xc7, 0xc8, 0xc9):
        n, pos = _u(data, pos, {0xc7: 1, 0xc8: 2, 0xc9: 4}[b])
        return _ext(data, pos, n, {0xc7: 'ext8', 0xc8: 'ext16', 0xc9: 'ext32'}[b])
    if b == 0xca:
        v, pos = _u(data, pos, 4)
        return {'t': 'f32', 'v': v, 'fmt': 'float32'}, pos
    if b == 0xcb:
        v, pos = _u(data, pos, 8)
        return {'t': 'f64', 'v': v, 'fmt': 'float64'}, pos
    if 0xcc <= b <= 0xcf:
        v, pos = _u(data, pos, 1 << (b - 0xcc))
        return {'t': 'int', 'v': v, 'fmt': 'uint%d' % (8 << (b - 0xcc))}, pos
    if 0xd0 <= b <= 0xd3:
        v, pos = _s(data, pos, 1 << (b - 0xd0))
        return {'t': 'int', 'v': v, 'fmt': 'int%d' % (8 << (b - 0xd0))}, pos
    if 0xd4 <= b <= 0xd8:
        return _ext(data, pos, 1 << (b - 0xd4), 'fixext%d' % (1 << (b - 0xd4)))
    if b in (0xd9, 0xda, 0xdb):
        n, pos = _u(data, pos, {0xd9: 1, 0xda: 2, 0xdb: 4}[b])
        return _str(data, pos, n, {0xd9: 'str8', 0xda: 'str16', 0xdb: 'str32'}[b], strict_utf8)
    if b in (0xdc, 0xdd):
        n, pos = _u(data, pos, 2 if b == 0xdc else 4)
        return _array(data, pos, n, 'array16' if b == 0xdc else 'array32', strict_utf8, depth)
    if b in (0xde, 0xdf):
        n, pos = _u(data, pos, 2 if b == 0xde else 4)
        return _map(data, pos, n, 'map16' if b == 0xde else 'map32', strict_utf8, depth)
    raise MsgPackError('unreachable byte %02x' % b)


def _str(data, pos, n, fmt, strict_utf8):
    _need(data, pos, n)
    raw = bytes(data[pos:pos + n])
    if strict_utf8:
        try:
            raw.decode('utf-8')
        except UnicodeDecodeError as e:
            raise MsgPackError('str is not valid UTF-8: %s' % e.reason)
    return {'t': 'str', 'v': raw, 'fmt': fmt}, pos + n


def _ext(data, pos, n, fmt):
    _need(data, pos, 1 + n)
    typ = data[pos] - 256 if data[pos] >= 128 else data[pos]
    payload = bytes(data[pos + 1:pos + 1 + n])
    pos += 1 + n
    if typ == -1:
        sec, ns = _timestamp(payload)
        return {'t': 'ts', 'v': (sec, ns), 'fmt': fmt, 'len': n}, pos
    return {'t': 'ext', 'v': (typ, payload), 'fmt': fmt}, pos


def _array(data, pos, n, fmt, strict_utf8, depth):
    if n > len(data) - pos:
        raise MsgPackError('array of %d elements cannot fit in %d remaining bytes' % (n, len(data) - pos))
    items = []
    for _ in range(n):
        it, pos = _decode(data, pos, strict_utf8, depth + 1)
        items.append(it)
    return {'t': 'array', 'v': items, 'fmt': fmt}, pos


def _map(data, pos, n, fmt, strict_utf8, depth):
    if 2 * n > len(data) - pos:
        raise MsgPackError('map of %d entries cannot fit in %d remaining bytes' % (n, len(data) - pos))
    items = []
    for _ in range(n):
        k, pos = _decode(data, pos, strict_utf8, depth + 1)
        v, pos = _decode(data, pos, strict_utf8, depth + 1)
        items.append((k, v))
    return {'t': 'map', 'v': items, 'fmt': fmt}, pos


def decode(data, strict_utf8=True, allow_trailing=False):
    item, pos = _decode(data, 0, strict_utf8, 0)
    if pos != len(data) and not allow_trailing:
        raise MsgPackError('%d trailing bytes after the object' % (len(data) - pos))
    return item


def decode_prefix(data, strict_utf8=True):
    """Returns (item, consumed)."""
    return _decode(data, 0, strict_utf8, 0)


# ---------------------------------------------------------------- minimal-format rules
def minimal_int_fmt(v):
    if 0 <= v <= 0x7f:
        return 'posfixint'
    if -32 <= v < 0:
        return 'negfixint'
    if v > 0:
        for bits in (8, 16, 32, 64):
            if v < (1 << bits):
                return 'uint%d' % bits
    else:
        for bits in (8, 16, 32, 64):
            if v >= -(1 << (bits - 1)):
                return 'int%d' % bits
    raise ValueError(v)


INT_SIZE = {'posfixint': 1, 'negfixint': 1, 'uint8': 2, 'int8': 2, 'uint16': 3, 'int16': 3, 'uint32': 5, 'int32': 5, 'uint64': 9, 'int64': 9}


def minimal_len_fmt(kind, n):
    if kind == 'str':
        return 'fixstr' if n < 32 else 'str8' if n < 256 else 'str16' if n < 65536 else 'str32'
    if kind == 'bin':
        return 'bin8' if n < 256 else 'bin16' if n < 65536 else 'bin32'
    if kind == 'array':
        return 'fixarray' if n < 16 else 'array16' if n < 65536 else 'array32'
    if kind == 'map':
        return 'fixmap' if n < 16 else 'map16' if n < 65536 else 'map32'
    raise ValueError(kind)


def minimal_ts_len(sec, ns):
    if 0 <= sec < (1 << 32) and ns == 0:
        return 4
    if 0 <= sec < (1 << 34):
        return 8
    return 12


# ---------------------------------------------------------------- encoder with free choice of legal formats
def int_formats(v):
    """All formats that can hold v."""
    out = []
    if 0 <= v <= 0x7f:
        out.append('posfixint')
    if -32 <= v < 0:
        out.append('negfixint')
    for bits in (8, 16, 32, 64):
        if 0 <= v < (1 << bits):
            out.append('uint%d' % bits)
        if -(1 << (bits - 1)) <= v < (1 << (bits - 1)):
            out.append('int%d' % bits)
    return out


def len_formats(kind, n):
    if kind == 'str':
        f = [('fixstr', 31), ('str8', 255), ('str16', 65535), ('str32', 2 ** 32 - 1)]
    elif kind == 'bin':
        f = [('bin8', 255), ('bin16', 65535), ('bin32', 2 ** 32 - 1)]
    elif kind == 'array':
        f = [('fixarray', 15), ('array16', 65535), ('array32', 2 ** 32 - 1)]
    else:
        f = [('fixmap', 15), ('map16', 65535), ('map32', 2 ** 32 - 1)]
    return [name for name, mx in f if n <= mx]


def _enc_int(v, fmt):
    if fmt == 'posfixint':
        return bytes([v])
    if fmt == 'negfixint':
        return bytes([v + 256])
    bits = int(fmt.lstrip('uint'))
    if fmt.startswith('uint'):
        return bytes([0xcc + {8: 0, 16: 1, 32: 2, 64: 3}[bits]]) + v.to_bytes(bits // 8, 'big')
    return bytes([0xd0 + {8: 0, 16: 1, 32: 2, 64: 3}[bits]]) + v.to_bytes(bits // 8, 'big', signed=True)


def _enc_len(kind, n, fmt):
    if fmt == 'fixstr':
        return bytes([0xa0 | n])
    if fmt == 'fixarray':
        return bytes([0x90 | n])
    if fmt == 'fixmap':
        return bytes([0x80 | n])
    code = {'str8': 0xd9, 'str16': 0xda, 'str32': 0xdb, 'bin8': 0xc4, 'bin16': 0xc5, 'bin32': 0xc6, 'array16': 0xdc, 'array32': 0xdd, 'map16': 0xde, 'map32': 0xdf}[fmt]
    size = {'8': 1, '6': 2, '2': 4}[fmt[-1]]
    return bytes([code]) + n.to_bytes(size, 'big')


def ts_formats(sec, ns):
    """(payload length, container format) choices that denote (sec, ns)."""
    out = []
    lens = []
    if 0 <= sec < (1 << 32) and ns == 0:
        lens.append(4)
    if 0 <= sec < (1 << 34):
        lens.append(8)
    if -(1 << 63) <= sec < (1 << 63):
        lens.append(12)
    for ln in lens:
        if ln in (4, 8):
            out.append((ln, 'fixext%d' % ln))
        out.append((ln, 'ext8'))
        out.append((ln, 'ext16'))
        out.append((ln, 'ext32'))
    return out


def _enc_ts(sec, ns, ln, fmt):
    if ln == 4:
        payload = sec.to_bytes(4, 'big')
    elif ln == 8:
        payload = ((ns << 34) | sec).to_bytes(8, 'big')
    elif TS96_SECONDS_FIRST:
        payload = sec.to_bytes(8, 'big', signed=True) + ns.to_bytes(4, 'big')     # NOT the layout of the specification (see known finding)
    else:
        payload = ns.to_bytes(4, 'big') + sec.to_bytes(8, 'big', signed=True)
    if fmt.startswith('fixext'):
        head = bytes([{4: 0xd6, 8: 0xd7}[ln]])
    else:
        size = {'ext8': 1, 'ext16': 2, 'ext32': 4}[fmt]
        head = bytes([{'ext8': 0xc7, 'ext16': 0xc8, 'ext32': 0xc9}[fmt]]) + ln.to_bytes(size, 'big')
    return head + b'\xff' + payload


def encode(item, choose=None):
    """choose(kind, options) -> one of options ; default picks the first (= most compact) option."""
    pick = choose or (lambda kind, opts: opts[0])
    t = item['t']
    if t == 'nil':
        return b'\xc0'
    if t == 'bool':
        return b'\xc3' if item['v'] else b'\xc2'
    if t == 'int':
        fmt = item.get('want') or pick('int', int_formats(item['v']))
        return _enc_int(item['v'], fmt)
    if t == 'f32':
        return b'\xca' + (0x7fc00000 if item['v'] == 'nan' else item['v']).to_bytes(4, 'big')
    if t == 'f64':
        return b'\xcb' + (0x7ff8000000000000 if item['v'] == 'nan' else item['v']).to_bytes(8, 'big')
    if t in ('str', 'bin'):
        fmt = item.get('want') or pick(t, len_formats(t, len(item['v'])))
        return _enc_len(t, len(item['v']), fmt) + item['v']
    if t == 'array':
        fmt = item.get('want') or pick('array', len_formats('array', len(item['v'])))
        return _enc_len('array', len(item['v']), fmt) + b''.join(encode(x, choose) for x in item['v'])
    if t == 'map':
        fmt = item.get('want') or pick('map', len_formats('map', len(item['v'])))
        return _enc_len('map', len(item['v']), fmt) + b''.join(encode(k, choose) + encode(v, choose) for k, v in item['v'])
    if t == 'ts':
        sec, ns = item['v']
        ln, fmt = item.get('want') or pick('ts', ts_formats(sec, ns))
        return _enc_ts(sec, ns, ln, fmt)
    if t == 'ext':
        typ, payload = item['v']
        n = len(payload)
        want = item.get('want')
        if n in (1, 2, 4, 8, 16) and not want:
            return bytes([{1: 0xd4, 2: 0xd5, 4: 0xd6, 8: 0xd7, 16: 0xd8}[n], typ & 0xff]) + payload
        if want == 'ext32' or n > 0xffff:
            return b'\xc9' + n.to_bytes(4, 'big') + bytes([typ & 0xff]) + payload
        if want == 'ext16' or n > 0xff:
            return b'\xc8' + n.to_bytes(2, 'big') + bytes([typ & 0xff]) + payload
        return b'\xc7' + bytes([n, typ & 0xff]) + payload
    raise ValueError(t)


def strip(item):
    """Comparable form without format information."""
    t = item['t']
    if t == 'array':
        return ('array', [strip(x) for x in item['v']])
    if t == 'map':
        return ('map', [(strip(k), strip(v)) for k, v in item['v']])
    return (t, item['v'])
