"""Independent renderers of a small document model into JSON / XML (BitSerializer's element mapping) / CSV / MessagePack.

Document model (python tuples):
  ('n',)  null            ('b', bool)          ('i', int)   signed/unsigned integer        ('f', hexbits of a double)
  ('s', str)              ('a', [items])       ('o', [(key, item), ...])   key: str, or ('ki', int) / ('kf', hex) / ('kt', (sec, ns)) for MessagePack
"""
import json
import struct

from oracles import msgpack_ref as M

FLOAT_ALT = True      # allow the 18-digit scientific spelling of doubles in randomised renderings


def f_of(hx):
    return struct.unpack('>d', bytes.fromhex(hx))[0]


def fmt_float(hx, rng=None):
    d = f_of(hx)
    s = repr(d)
    if s.endswith('.0') and rng is not None and rng.random() < 0.3 and abs(d) < 1e15:
        s = s[:-2] + '.0'
    if FLOAT_ALT and rng is not None and 'e' not in s and rng.random() < 0.2 and d != 0:
        s = '%.17e' % d
    return s


# ---------------------------------------------------------------- JSON
def json_str(s, rng=None):
    out = ['"']
    for ch in s:
        o = ord(ch)
        r = rng.random() if rng is not None else 1.0
        if ch == '"':
            out.append('\\"')
        elif ch == '\\':
            out.append('\\\\')
        elif o < 0x20:
            out.append({8: '\\b', 9: '\\t', 10: '\\n', 12: '\\f', 13: '\\r'}.get(o, '\\u%04x' % o) if r > 0.3 else '\\u%04X' % o)
        elif ch == '/' and r < 0.3:
            out.append('\\/')
        elif r < 0.15:
            if o >= 0x10000:
                v = o - 0x10000
                out.append('\\u%04x\\u%04x' % (0xD800 + (v >> 10), 0xDC00 + (v & 0x3FF)))
            else:
                out.append('\\u%04x' % o)
        else:
            out.append(ch)
    out.append('"')
    return ''.join(out)


def render_json(item, rng=None, indent=None, depth=0):
    """rng: randomise insignificant formatting (whitespace, escapes, numeric spelling of floats)."""
    def ws():
        if rng is None:
            return ''
        return rng.choice(['', '', ' ', '\n', '\t', '  ', '\r\n'])
    t = item[0]
    if t == 'n':
        return 'null'
    if t == 'b':
        return 'true' if item[1] else 'false'
    if t == 'i':
        return str(item[1])
    if t == 'f':
        return fmt_float(item[1], rng)
    if t == 'f32':
        return repr(struct.unpack('>f', bytes.fromhex(item[1]))[0])
    if t == 's':
        return json_str(item[1], rng)
    if t == 'a':
        return '[' + ws() + (',' + ws()).join(render_json(x, rng) + ws() for x in item[1]) + ']'
    if t == 'o':
        return '{' + ws() + (',' + ws()).join(json_str(k if isinstance(k, str) else str(k), rng) + ws() + ':' + ws() + render_json(v, rng) + ws() for k, v in item[1]) + '}'
    raise ValueError(t)


# ---------------------------------------------------------------- XML (array children: <value>/<array>/<object>; object members: <key>)
def xml_text(s, rng=None):
    out = []
    for ch in s:
        r = rng.random() if rng is not None else 1.0
        if ch == '<':
            out.append('&lt;')
        elif ch == '&':
            out.append('&amp;')
        elif ch == '>' and r < 0.7:
            out.append('&gt;')
        elif ch == '\r':
            out.append('&#13;')
        elif r < 0.1 and ch not in '\n\t':
            out.append('&#%d;' % ord(ch) if r < 0.05 else '&#x%X;' % ord(ch))
        else:
            out.append(ch)
    return ''.join(out)


def _xml_scalar(item, rng):
    t = item[0]
    if t == 'b':
        return 'true' if item[1] else 'false'
    if t == 'i':
        return str(item[1])
    if t == 'f':
        return fmt_float(item[1], None)
    if t == 'f32':
        return repr(struct.unpack('>f', bytes.fromhex(item[1]))[0])
    if t == 's':
        s = item[1]
        if rng is not None and rng.random() < 0.15 and ']]>' not in s and s and all(c not in s for c in '\r'):
            return '<![CDATA[' + s + ']]>'
        return xml_text(s, rng)
    raise ValueError(t)


def render_xml_node(name, item, rng=None):
    t = item[0]
    sp = (lambda: rng.choice(['', '', '\n', ' ', '\n\t'])) if rng is not None else (lambda: '')
    if t == 'n':
        return '<%s/>' % name if (rng is None or rng.random() < 0.5) else '<%s></%s>' % (name, name)
    if t in ('b', 'i', 'f', 'f32', 's'):
        body = _xml_scalar(item, rng)
        if body == '':
            return '<%s/>' % name
        return '<%s>%s</%s>' % (name, body, name)
    if t == 'a':
        inner = ''.join(sp() + render_xml_node({'a': 'array', 'o': 'object'}.get(x[0], 'value'), x, rng) for x in item[1])
        return '<%s>%s%s</%s>' % (name, inner, sp() if item[1] else '', name) if item[1] else '<%s/>' % name
    if t == 'o':
        inner = ''.join(sp() + render_xml_node(k, v, rng) for k, v in item[1])
        return '<%s>%s%s</%s>' % (name, inner, sp() if item[1] else '', name) if item[1] else '<%s/>' % name
    raise ValueError(t)


def render_xml(item, rng=None, declaration=True, encoding=None):
    root = 'array' if item[0] == 'a' else 'root'
    head = ''
    if declaration:
        head = '<?xml version="1.0"%s?>' % (' encoding="%s"' % encoding if encoding else '')
        if rng is not None:
            head += rng.choice(['', '\n', '\r\n'])
    return head + render_xml_node(root, item, rng)


# ---------------------------------------------------------------- CSV (RFC 4180)
def csv_field(s, sep, rng=None, force_quote=False):
    must = any(c in s for c in ('"', sep, '\r', '\n'))
    if must or force_quote or (rng is not None and rng.random() < 0.25):
        return '"' + s.replace('"', '""') + '"'
    return s


def render_csv(header, rows, sep=',', rng=None, eol='\r\n', final_eol=True):
    lines = [sep.join(csv_field(h, sep, rng) for h in header)]
    for r in rows:
        lines.append(sep.join(csv_field(c, sep, rng) for c in r))
    e = eol
    if rng is not None:
        e = rng.choice(['\r\n', '\n'])
        final_eol = rng.random() < 0.6
    return e.join(lines) + (e if final_eol else '')


# ---------------------------------------------------------------- MessagePack
def mp_item(item):
    t = item[0]
    if t == 'n':
        return {'t': 'nil', 'v': None}
    if t == 'b':
        return {'t': 'bool', 'v': item[1]}
    if t == 'i':
        return {'t': 'int', 'v': item[1]}
    if t == 'f':
        return {'t': 'f64', 'v': int(item[1], 16)}
    if t == 'f32':
        return {'t': 'f32', 'v': int(item[1], 16)}
    if t == 's':
        return {'t': 'str', 'v': item[1].encode('utf-8')}
    if t == 'x':
        # application-defined extension (MessagePack only): ('x', type, payload bytes, optional wanted header form)
        d = {'t': 'ext', 'v': (item[1], item[2])}
        if len(item) > 3 and item[3]:
            d['want'] = item[3]
        return d
    if t == 'a':
        return {'t': 'array', 'v': [mp_item(x) for x in item[1]]}
    if t == 'o':
        return {'t': 'map', 'v': [(mp_key(k), mp_item(v)) for k, v in item[1]]}
    raise ValueError(t)


def mp_key(k):
    if isinstance(k, str):
        return {'t': 'str', 'v': k.encode('utf-8')}
    if k[0] == 'ki':
        return {'t': 'int', 'v': k[1]}
    if k[0] == 'kf':
        return {'t': 'f64', 'v': int(k[1], 16)}
    if k[0] == 'kt':
        return {'t': 'ts', 'v': k[1]}
    raise ValueError(k)


def render_msgpack(item, chooser=None):
    return M.encode(mp_item(item), chooser)
